package fastlog

import (
	"math/rand"
	"net/netip"
	"testing"
)

func TestVerifRefRFC5952(t *testing.T) {
	r := rand.New(rand.NewSource(1))
	for it := 0; it < 200000; it++ {
		var a [16]byte
		mask := r.Intn(256)
		for i := 0; i < 8; i++ {
			if mask&(1<<i) != 0 {
				v := uint16(r.Intn(65536))
				switch r.Intn(4) {
				case 0:
					v &= 0xf
				case 1:
					v &= 0xff
				case 2:
					v &= 0xfff
				}
				a[2*i], a[2*i+1] = byte(v>>8), byte(v)
			}
		}
		ad := netip.AddrFrom16(a)
		if ad.Is4In6() {
			continue
		}
		want := ad.String()
		got := string(verifRFC5952(a[:]))
		if want != got {
			t.Fatalf("%x: ref %q netip %q", a, got, want)
		}
	}
	for v := uint32(0); v < 70000; v++ {
		if string(verifDec(v)) != netip.AddrPortFrom(netip.Addr{}, 0).String()[:0]+itoa(v) {
			t.Fatalf("dec %d", v)
		}
	}
}
func itoa(v uint32) string {
	if v == 0 {
		return "0"
	}
	var b []byte
	for v > 0 {
		b = append([]byte{byte('0' + v%10)}, b...)
		v /= 10
	}
	return string(b)
}
