package fastlog

import (
	"math/rand"
	"net/netip"
	"strconv"
	"testing"
)

func TestVerifRefRFC5952(t *testing.T) {
	r := rand.New(rand.NewSource(1))
	for it := 0; it < 200000; it++ {
		var a [16]byte
		mask := r.Intn(256)
		for i := 0; i < 8; i++ {
			if mask&(1<<i) != 0 {
				v := uint16(r.Intn(65536))
				switch r.Intn(4) {
				case 0:
					v &= 0xf
				case 1:
					v &= 0xff
				case 2:
					v &= 0xfff
				}
				a[2*i], a[2*i+1] = byte(v>>8), byte(v)
			}
		}
		ad := netip.AddrFrom16(a)
		if ad.Is4In6() {
			continue
		}
		want := ad.String()
		got := string(verifRFC5952(a[:]))
		if want != got {
			t.Fatalf("%x: ref %q netip %q", a, got, want)
		}
	}
	for v := uint32(0); v < 70000; v++ {
		if string(verifDec(v)) != netip.AddrPortFrom(netip.Addr{}, 0).String()[:0]+itoa(v) {
			t.Fatalf("dec %d", v)
		}
	}
}
func itoa(v uint32) string {
	if v == 0 {
		return "0"
	}
	var b []byte
	for v > 0 {
		b = append([]byte{byte('0' + v%10)}, b...)
		v /= 10
	}
	return string(b)
}

func TestVerifRefDec64(t *testing.T) {
	r := rand.New(rand.NewSource(2))
	check := func(v int64) {
		if got, want := string(verifDec64(v)), strconv.FormatInt(v, 10); got != want {
			t.Fatalf("dec64 %d: ref %q strconv %q", v, got, want)
		}
	}
	for _, b := range []int64{0, 1 << 16, 1 << 31, 1 << 32, 1 << 48, 10, 1000, 1e9, 1e10, 1e18, 1<<63 - 300, -1<<63 + 300} {
		for d := int64(-300); d <= 300; d++ {
			check(b + d)
			check(-b + d)
		}
	}
	for it := 0; it < 200000; it++ {
		check(int64(r.Uint64()) >> uint(r.Intn(64)))
	}
}
