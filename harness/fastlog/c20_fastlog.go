package fastlog

import (
	"bytes"
	"net"
	"net/netip"
)

const verifHex = "0123456789abcdef"

// verifLine: a line with arbitrary old buffer contents and a symbolic cursor that leaves `room` bytes.
func verifLine(room int) (*Line, int) {
	l := &Line{}
	copy(l.buffer[:], verifBytes(bufSize))
	idx := verifInt()
	verifAssume(idx >= 7 && idx <= bufSize-1-room)
	l.index = idx
	return l, idx
}

func verifName() string {
	switch verifChoose(3) {
	case 0:
		return ""
	case 1:
		return verifString(1)
	}
	return verifString(4)
}

// verifExpectField checks that the bytes appended since start are ' ' name '=' value and nothing before start changed.
func verifExpect(l *Line, start int, want []byte, id string) {
	verifAssert(l.index == start+len(want), id+":length")
	if l.index == start+len(want) {
		verifAssert(bytes.Equal(l.buffer[start:l.index], want), id+":bytes")
	}
}

func verifField(name string, value []byte) []byte {
	w := []byte{' '}
	w = append(w, name...)
	w = append(w, '=')
	return append(w, value...)
}

func verifDec(v uint32) []byte {
	n := 1
	switch {
	case v >= 1000000000:
		n = 10
	case v >= 100000000:
		n = 9
	case v >= 10000000:
		n = 8
	case v >= 1000000:
		n = 7
	case v >= 100000:
		n = 6
	case v >= 10000:
		n = 5
	case v >= 1000:
		n = 4
	case v >= 100:
		n = 3
	case v >= 10:
		n = 2
	}
	out := make([]byte, n)
	for i := n - 1; i >= 0; i-- {
		out[i] = byte(v%10) + '0'
		v /= 10
	}
	return out
}

func VerifC20Bool() {
	l, start := verifLine(16)
	name := verifName()
	v := verifBool()
	l.Bool(name, v)
	val := "false"
	if v {
		val = "true"
	}
	verifExpect(l, start, verifField(name, []byte(val)), "Bool")
	verifReach("done")
}

func VerifC20Hex() {
	l, start := verifLine(32)
	name := verifName()
	switch verifChoose(3) {
	case 0:
		v := verifU8()
		l.Uint8Hex(name, v)
		verifExpect(l, start, verifField(name, []byte{'0', 'x', verifHex[v>>4], verifHex[v&15]}), "Uint8Hex")
	case 1:
		v := verifU16()
		l.Uint16Hex(name, v)
		verifExpect(l, start, verifField(name, []byte{'0', 'x', verifHex[v>>12], verifHex[(v>>8)&15], verifHex[(v>>4)&15], verifHex[v&15]}), "Uint16Hex")
	case 2:
		// one position takes every byte value, the others are fixed (all digit classes present)
		m := []byte{0x00, 0x1f, 0xa0, 0xff, 0x9a, 0x5c}
		m[verifChoose(6)] = verifU8()
		l.MAC(name, net.HardwareAddr(m))
		var w []byte
		for i := 0; i < 6; i++ {
			if i > 0 {
				w = append(w, ':')
			}
			w = append(w, verifHex[m[i]>>4], verifHex[m[i]&15])
		}
		verifExpect(l, start, verifField(name, w), "MAC")
	}
	verifReach("done")
}

func VerifC20MACNil() {
	l, start := verifLine(32)
	n := verifChoose(9)
	verifAssume(n != 6)
	l.MAC("m", net.HardwareAddr(verifBytes(8)[:n]))
	verifExpect(l, start, verifField("m", []byte("nil")), "MAC-nil")
	verifReach("done")
}

// VerifC20Uint: decimal rendering of every uint8 / uint16 / uint32 value.
func VerifC20Uint(width int) {
	l, start := verifLine(24)
	name := verifName()
	var v uint32
	switch width {
	case 8:
		x := verifU8()
		v = uint32(x)
		l.Uint8(name, x)
	case 16:
		x := verifU16()
		v = uint32(x)
		l.Uint16(name, x)
	default:
		v = verifU32()
		l.Uint32(name, v)
	}
	verifExpect(l, start, verifField(name, verifDec(v)), "Uint")
	verifReach("done")
}

func VerifC20String() {
	n := verifChoose(6)
	l, start := verifLine(24)
	name := verifName()
	v := verifString(n)
	switch verifChoose(3) {
	case 0:
		l.String(name, v)
		w := append(verifField(name, []byte{'"'}), v...)
		verifExpect(l, start, append(w, '"'), "String")
	case 1:
		l.Bytes(name, []byte(v))
		verifExpect(l, start, verifField(name, []byte(v)), "Bytes")
	case 2:
		l.Label(v)
		verifExpect(l, start, append([]byte{' '}, v...), "Label")
	}
	verifReach("done")
}

// VerifC20Msg: Logger.Msg starts a line with the module prefix and the quoted message.
func VerifC20Msg() {
	lg := New("mod")
	n := verifChoose(5)
	m := verifString(n)
	l := lg.Msg(m)
	w := []byte("mod   :")
	if n > 0 {
		w = append(w, ' ', '"')
		w = append(w, m...)
		w = append(w, '"')
	}
	verifExpect(l, 0, w, "Msg")
	verifReach("done")
}

// ---- RFC 5952 reference rendering of an IPv6 address
func verifHexGroup(g uint16) []byte {
	switch {
	case g >= 0x1000:
		return []byte{verifHex[g>>12], verifHex[(g>>8)&15], verifHex[(g>>4)&15], verifHex[g&15]}
	case g >= 0x100:
		return []byte{verifHex[(g>>8)&15], verifHex[(g>>4)&15], verifHex[g&15]}
	case g >= 0x10:
		return []byte{verifHex[(g>>4)&15], verifHex[g&15]}
	}
	return []byte{verifHex[g&15]}
}

func verifRFC5952(ip []byte) []byte {
	var g [8]uint16
	for i := 0; i < 8; i++ {
		g[i] = uint16(ip[2*i])<<8 | uint16(ip[2*i+1])
	}
	bestStart, bestLen := -1, 0
	for i := 0; i < 8; i++ {
		if g[i] != 0 {
			continue
		}
		j := i
		for j < 8 && g[j] == 0 {
			j++
		}
		if j-i >= 2 && j-i > bestLen {
			bestStart, bestLen = i, j-i
		}
		i = j
	}
	var out []byte
	for i := 0; i < 8; i++ {
		if i == bestStart {
			out = append(out, ':', ':')
			i += bestLen - 1
			continue
		}
		if i > 0 && i != bestStart+bestLen {
			out = append(out, ':')
		}
		out = append(out, verifHexGroup(g[i])...)
	}
	return out
}

// VerifC20IP6: zero/non-zero layout `mask` (bit i set = group i non-zero).
// mode 0: every non-zero group is a fixed 4-digit constant (one path per layout);
// mode 1: the group at position `free` takes every non-zero value (all digit classes), the others are constants.
func verifIP6Case(mask int, free int) {
	ip := make([]byte, 16)
	consts := []uint16{0x1a2b, 0x3c4d, 0x5e6f, 0x7081, 0x92a3, 0xb4c5, 0xd6e7, 0xf809}
	var fb []byte
	for i := 0; i < 8; i++ {
		switch {
		case mask&(1<<i) == 0:
		case i == free:
			fb = verifBytes(2)
			verifAssume(fb[0] != 0 || fb[1] != 0)
			ip[2*i], ip[2*i+1] = fb[0], fb[1]
		default:
			ip[2*i], ip[2*i+1] = byte(consts[i]>>8), byte(consts[i])
		}
	}
	// ::ffff:a.b.c.d (IPv4-mapped) is rendered as dotted quad by design: that form belongs to VerifC20IP4
	mapped := ip[10] == 0xff && ip[11] == 0xff
	for i := 0; i < 10; i++ {
		mapped = mapped && ip[i] == 0
	}
	verifAssume(!mapped)
	l, start := verifLine(64)
	l.IPSlice("ip", net.IP(ip))
	verifExpect(l, start, verifField("ip", verifRFC5952(ip)), "IPSlice6")
	verifReach("done")
}

func VerifC20IP6Layout() {
	mask := verifSplit(256)
	verifAssume(mask != 0) // :: (all zero) is rendered by the IPv4-mapped test below? no: it is a valid IPv6 address
	verifIP6Case(mask, -1)
}

func VerifC20IP6Zero() {
	verifIP6Case(0, -1)
}

// VerifC20IP6Digits: masks from a fixed list (quick) or all masks (thorough, nMasks = 256).
func VerifC20IP6Digits(nMasks int) {
	k := verifSplit(nMasks)
	mask := k
	if nMasks != 256 {
		mask = []int{0xff, 0x01, 0x80, 0x81, 0xe7, 0x3c, 0xf0, 0x0f, 0xaa, 0x55, 0xc3, 0x99, 0x18, 0x7e, 0xfe, 0x7f}[k]
	}
	free := verifChoose(8)
	verifAssume(mask&(1<<free) != 0)
	verifIP6Case(mask, free)
}

// VerifC20IP4: dotted quad; octet `pos` takes every value, the others are fixed samples of each digit count.
func VerifC20IP4(pos int) {
	ip := []byte{7, 42, 199, 0}
	ip[pos] = verifU8()
	l, start := verifLine(32)
	if verifChoose(2) == 0 {
		l.IPSlice("ip", net.IP(ip))
	} else {
		v6 := make([]byte, 16)
		v6[10], v6[11] = 0xff, 0xff
		copy(v6[12:], ip)
		l.IPSlice("ip", net.IP(v6))
	}
	var w []byte
	for i := 0; i < 4; i++ {
		if i > 0 {
			w = append(w, '.')
		}
		w = append(w, verifDec(uint32(ip[i]))...)
	}
	verifExpect(l, start, verifField("ip", w), "IPSlice4")
	verifReach("done")
}

// VerifC20NetipIP: Line.IP uses netip.Addr.AppendTo; equality with the standard library is by construction,
// the obligation here is that it stays inside the buffer and advances the cursor by the rendered length.
func VerifC20NetipIP() {
	l, start := verifLine(64)
	var a netip.Addr
	switch verifChoose(3) {
	case 0:
		b := verifBytes(4)
		a = netip.AddrFrom4([4]byte{b[0], b[1], b[2], b[3]})
	case 1:
		a = netip.Addr{}
	case 2:
		b := verifBytes(16)
		var x [16]byte
		copy(x[:], b)
		verifAssume(b[0] >= 0x10 && b[2] >= 0x10 && b[4] >= 0x10 && b[6] >= 0x10 && b[8] >= 0x10 && b[10] >= 0x10 && b[12] >= 0x10 && b[14] >= 0x10)
		a = netip.AddrFrom16(x)
	}
	l.IP("ip", a)
	verifAssert(l.index > start && l.index <= start+4+39, "IP:cursor")
	verifReach("done")
}

// ---- buffer safety of the array appenders: symbolic cursor near the end of the buffer, symbolic lengths beyond it
func VerifC20ByteArray(window int) {
	l := &Line{}
	idx := verifInt()
	n := verifInt()
	verifAssume(idx >= bufSize-window && idx >= 7 && idx <= bufSize-8)
	verifAssume(n >= 0 && n <= 4096)
	l.index = idx
	v := make([]byte, 4096)[:n]
	l.ByteArray("arr", v)
	verifAssert(l.index <= bufSize-1 && l.index >= idx, "ByteArray:cursor")
	verifReach("done")
}

func VerifC20StringArray() {
	l := &Line{}
	idx := verifInt()
	verifAssume(idx >= 7 && idx <= bufSize-1)
	l.index = idx
	k := verifChoose(4)
	arr := make([]string, k)
	for i := range arr {
		arr[i] = verifString(verifChoose(3) * 7)
	}
	l.StringArray("sa", arr)
	verifAssert(l.index <= bufSize && l.index >= idx, "StringArray:cursor")
	verifReach("done")
}

func VerifC20IPArray() {
	l := &Line{}
	idx := verifInt()
	verifAssume(idx >= 7 && idx <= bufSize-1)
	l.index = idx
	k := verifChoose(3)
	arr := make([]net.IP, k)
	for i := range arr {
		arr[i] = net.IP{0x20, 0x01, 0x1a, 0x2b, 0x3c, 0x4d, 0x5e, 0x6f, 0x70, 0x81, 0x92, 0xa3, 0xb4, 0xc5, 0xd6, 0xe7}
	}
	l.IPArray("ips", arr)
	verifAssert(l.index <= bufSize && l.index >= idx, "IPArray:cursor")
	verifReach("done")
}

// VerifC20Concat: a line equals the concatenation of its reference-rendered fields.
func VerifC20Concat() {
	lg := New("m")
	l := lg.Msg("x")
	a, b, c := verifU8(), verifU16(), verifBool()
	l.Uint8Hex("a", a).Uint16("b", b).Bool("c", c)
	w := []byte(`m     : "x"`)
	w = append(w, verifField("a", []byte{'0', 'x', verifHex[a>>4], verifHex[a&15]})...)
	w = append(w, verifField("b", verifDec(uint32(b)))...)
	val := "false"
	if c {
		val = "true"
	}
	w = append(w, verifField("c", []byte(val))...)
	verifExpect(l, 0, w, "Concat")
	verifReach("done")
}

// verifDec64 is the reference decimal renderer for signed 64-bit integers (digit by digit, most significant first,
// by comparison with the powers of ten: no division by a symbolic operand).
func verifDec64(v int64) []byte {
	var out []byte
	u := uint64(v)
	if v < 0 {
		out = append(out, '-')
		u = -u
	}
	n := 1
	p := uint64(10)
	for n < 20 && u >= p {
		n++
		if n == 20 {
			break
		}
		p *= 10
	}
	digits := make([]byte, n)
	for i := n - 1; i >= 0; i-- {
		digits[i] = byte(u%10) + '0'
		u /= 10
	}
	return append(out, digits...)
}

// VerifC20Int: Line.Int against the reference. mode 0: every value in a window of `win` values around each base
// (0, +-2^16, +-2^31, +-2^32, +-2^48, +-10^k for k = 1, 3, 9, 10, 18; 2^63-1 and -2^63 from inside; the base is the job
// split); mode 1: every int32 value; mode 2: every int64 value (modes 1 and 2 measured: not decided within 150 s, the
// standard library's two-digit table lookup is case-split per digit pair - not registered).
func VerifC20Int(mode, win int) {
	l, start := verifLine(40)
	name := verifName()
	var v int64
	switch mode {
	case 0:
		bases := []int64{0, 1 << 16, 1 << 31, 1 << 32, 1 << 48, 10, 1000, 1000000000, 10000000000, 1000000000000000000}
		k := verifSplit(2*len(bases) + 2)
		w := int64(verifU8())
		verifAssume(w < int64(win))
		d := w - int64(win)/2
		switch {
		case k < len(bases):
			v = bases[k] + d
		case k < 2*len(bases):
			v = -bases[k-len(bases)] + d
		case k == 2*len(bases):
			v = 1<<63 - 1 - w
		default:
			v = -1<<63 + w
		}
	case 1:
		v = int64(int32(verifU32()))
	default:
		v = verifI64()
	}
	l.Int(name, int(v))
	verifExpect(l, start, verifField(name, verifDec64(v)), "Int")
	verifReach("done")
}
