package packet

// Independent DNS message builder used by the C17 harnesses (copied into every harness package).
// It writes a well-formed message into a concrete-structure buffer; label contents are arbitrary (symbolic)
// bytes. What a correct decoder must return is recorded by the builder as it writes: the expectation does not
// come from any decoding code.

type verifDNSMsg struct {
	b []byte
	i int
}

func verifDNSNew(id uint16, flags uint16, qd, an, ns, ar int) *verifDNSMsg {
	m := &verifDNSMsg{b: make([]byte, 700), i: 12}
	m.b[0], m.b[1] = byte(id>>8), byte(id)
	m.b[2], m.b[3] = byte(flags>>8), byte(flags)
	m.b[5], m.b[7], m.b[9], m.b[11] = byte(qd), byte(an), byte(ns), byte(ar)
	return m
}

// labels writes labels of the given lengths with arbitrary contents and returns the dotted text appended to text
// (no terminator written).
func (m *verifDNSMsg) labels(text []byte, lens ...int) []byte {
	for _, n := range lens {
		c := verifBytes(n)
		m.b[m.i] = byte(n)
		copy(m.b[m.i+1:], c)
		m.i += 1 + n
		if len(text) > 0 {
			text = append(text, '.')
		}
		text = append(text, c...)
	}
	return text
}

// fixed writes the labels of a dotted concrete name (no terminator).
func (m *verifDNSMsg) fixed(name string) {
	start := 0
	for k := 0; k <= len(name); k++ {
		if k == len(name) || name[k] == '.' {
			m.b[m.i] = byte(k - start)
			copy(m.b[m.i+1:], name[start:k])
			m.i += 1 + k - start
			start = k + 1
		}
	}
}

func (m *verifDNSMsg) root() { m.b[m.i] = 0; m.i++ }

func (m *verifDNSMsg) ptr(target int) {
	m.b[m.i], m.b[m.i+1] = 0xc0|byte(target>>8), byte(target)
	m.i += 2
}

func (m *verifDNSMsg) u16(v uint16) { m.b[m.i], m.b[m.i+1] = byte(v>>8), byte(v); m.i += 2 }
func (m *verifDNSMsg) u32(v uint32) { m.u16(uint16(v >> 16)); m.u16(uint16(v)) }

// rrHeader writes type, class IN, ttl and a placeholder RDLENGTH; returns the offset of RDLENGTH.
func (m *verifDNSMsg) rrHeader(t uint16, ttl uint32) int {
	m.u16(t)
	m.u16(1)
	m.u32(ttl)
	at := m.i
	m.u16(0)
	return at
}

// rdEnd patches RDLENGTH.
func (m *verifDNSMsg) rdEnd(at int) {
	n := m.i - at - 2
	m.b[at], m.b[at+1] = byte(n>>8), byte(n)
}

func (m *verifDNSMsg) raw(c []byte) { copy(m.b[m.i:], c); m.i += len(c) }

func (m *verifDNSMsg) bytes() []byte { return m.b[:m.i:m.i] }

func verifStrEq(s string, b []byte) bool {
	if len(s) != len(b) {
		return false
	}
	d := byte(0)
	for i := 0; i < len(b); i++ {
		d |= s[i] ^ b[i]
	}
	return d == 0
}
