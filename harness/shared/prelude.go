package packet

// Harness prelude. The symbolic executor (gse) intercepts every verif*
// function by name; the bodies below are used only when a counterexample is
// replayed natively (values come from a tape written by the replay generator).

import (
	"reflect"
	"runtime"
	"time"
	"unsafe"
)

var verifTapeInts []uint64
var verifTapeBytes [][]byte
var verifTapePos int
var verifAssumeFailed bool
var verifFailures []string

func verifNext() uint64 {
	if verifTapePos >= len(verifTapeInts) {
		verifTapePos++
		return 0
	}
	v := verifTapeInts[verifTapePos]
	verifTapePos++
	return v
}
func verifInt() int       { return int(verifNext()) }
func verifI64() int64     { return int64(verifNext()) }
func verifU8() uint8      { return uint8(verifNext()) }
func verifU16() uint16    { return uint16(verifNext()) }
func verifU32() uint32    { return uint32(verifNext()) }
func verifU64() uint64    { return verifNext() }
func verifBool() bool     { return verifNext() != 0 }
func verifBytes(n int) []byte {
	b := make([]byte, n)
	if verifTapePos < len(verifTapeBytes) {
		copy(b, verifTapeBytes[verifTapePos])
	}
	verifTapePos++
	return b
}
func verifString(n int) string { return string(verifBytes(n)) }

type verifAssumption struct{}

func verifAssume(b bool) {
	if !b {
		verifAssumeFailed = true
		panic(verifAssumption{})
	}
}
func verifAssert(b bool, id string) {
	if !b {
		verifFailures = append(verifFailures, id)
	}
}
func verifAssertCut(b bool, id string)  { verifAssert(b, id) }
func verifAssertHard(b bool, id string) { verifAssert(b, id) }
func verifReach(id string)              {}
func verifChoose(n int) int             { return int(verifNext()) % n }
func verifSplit(n int) int              { return int(verifNext()) % n }
// native provenance monitor (replay only): address range of the tagged packet buffer
var verifTagLo, verifTagHi uintptr

func verifTagInput(b []byte) {
	if cap(b) == 0 {
		return
	}
	verifTagLo = uintptr(unsafe.Pointer(&b[:1][0]))
	verifTagHi = verifTagLo + uintptr(cap(b))
}
func verifConcretize(x int) int         { return x }

// verifCapFor(n, c): the capacity to use for a slice of length n. Natively, when a
// "reslice-beyond-length" finding is replayed, the capacity is clamped to the length so
// that reading spare capacity becomes an observable panic.
var verifClampCap bool

func verifCapFor(n, c int) int {
	if verifClampCap {
		return n
	}
	return c
}
func verifNoInputAlias(root interface{}, id string) {
	if verifTagHi == 0 {
		return
	}
	seen := map[uintptr]bool{}
	hit := false
	in := func(p uintptr) bool { return p >= verifTagLo && p < verifTagHi }
	var walk func(v reflect.Value, depth int)
	walk = func(v reflect.Value, depth int) {
		if hit || depth > 40 || !v.IsValid() {
			return
		}
		switch v.Kind() {
		case reflect.Ptr:
			if v.IsNil() || seen[v.Pointer()] {
				return
			}
			seen[v.Pointer()] = true
			if in(v.Pointer()) {
				hit = true
				return
			}
			walk(v.Elem(), depth+1)
		case reflect.Interface:
			if !v.IsNil() {
				walk(v.Elem(), depth+1)
			}
		case reflect.Slice:
			if v.IsNil() {
				return
			}
			if v.Cap() > 0 && in(v.Pointer()) {
				hit = true
				return
			}
			if k := v.Type().Elem().Kind(); k == reflect.Uint8 || k == reflect.Int || k == reflect.Uint16 || k == reflect.Bool {
				return
			}
			for i := 0; i < v.Len(); i++ {
				walk(v.Index(i), depth+1)
			}
		case reflect.String:
			if str := v.String(); len(str) > 0 && in(*(*uintptr)(unsafe.Pointer(&str))) {
				hit = true
			}
		case reflect.Struct:
			for i := 0; i < v.NumField(); i++ {
				walk(v.Field(i), depth+1)
			}
		case reflect.Array:
			if k := v.Type().Elem().Kind(); k == reflect.Uint8 {
				return
			}
			for i := 0; i < v.Len(); i++ {
				walk(v.Index(i), depth+1)
			}
		case reflect.Map:
			if v.IsNil() {
				return
			}
			it := v.MapRange()
			for it.Next() {
				walk(it.Key(), depth+1)
				walk(it.Value(), depth+1)
			}
		}
	}
	walk(reflect.ValueOf(root), 0)
	if hit {
		verifFailures = append(verifFailures, id)
	}
}
func verifInside(outer, inner []byte, id string) {
	if len(inner) == 0 {
		return
	}
	if verifOffset(outer, inner) < 0 {
		verifFailures = append(verifFailures, id+":provenance")
		return
	}
	off := cap(outer) - cap(inner)
	if off+len(inner) > len(outer) {
		verifFailures = append(verifFailures, id+":inside")
	}
}
func verifSameSlice(a, b []byte) bool {
	if len(a) != len(b) {
		return false
	}
	if len(a) == 0 {
		return true
	}
	return &a[0] == &b[0]
}
func verifOffset(outer, inner []byte) int {
	if inner == nil || cap(inner) == 0 || cap(outer) == 0 {
		return -1
	}
	if &outer[:cap(outer)][cap(outer)-1] != &inner[:cap(inner)][cap(inner)-1] {
		return -1
	}
	return cap(outer) - cap(inner)
}
func verifTime(ns int64) time.Time       { return time.Unix(0, ns) }
func verifTimeNS(t time.Time) int64      { return t.UnixNano() }

// verifClockRange: every later time.Now() lies in [lo, hi) ns (engine only; natively the real clock runs)
func verifClockRange(lo, hi int64) {}
// native allocation monitor (replay only): heap allocations counted by the runtime between mark and check
var verifMS runtime.MemStats
var verifMallocs uint64

func verifAllocMark(on bool) {
	runtime.ReadMemStats(&verifMS)
	verifMallocs = verifMS.Mallocs
}
func verifNoAllocSince(id string) {
	runtime.ReadMemStats(&verifMS)
	if verifMS.Mallocs > verifMallocs {
		verifFailures = append(verifFailures, id)
	}
}
// native runs verify checksums directly; the engine models Checksum as an uninterpreted function (C15 decides it)
func verifIsNative() bool             { return true }
func verifChecksumCalls() int         { return 0 }
func verifChecksumArg(i int) []byte   { return nil }
func verifChecksumResult(i int) uint16 { return 0 }
func verifDebug(x int, what string) {}
func verifRunGoroutines()                {}
func verifPendingGoroutines() int        { return 0 }
func verifDropGoroutines()               {}
