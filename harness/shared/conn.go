package packet

import (
	"errors"
	"net"
	"time"
)

// verifConn is a net.PacketConn that records every frame written (a private copy) and can
// fail, loop a reply back into Parse, or run a callback. No sockets.
type verifConn struct {
	frames [][]byte
	fail   bool
	hook   func(frame []byte)
}

var verifErrSend = errors.New("verif: send failed")

func (c *verifConn) WriteTo(b []byte, addr net.Addr) (int, error) {
	if c.fail {
		return 0, verifErrSend
	}
	cp := make([]byte, len(b))
	copy(cp, b)
	c.frames = append(c.frames, cp)
	if c.hook != nil {
		c.hook(cp)
	}
	return len(b), nil
}
func (c *verifConn) ReadFrom(b []byte) (int, net.Addr, error) { return 0, nil, verifErrSend }
func (c *verifConn) Close() error                              { return nil }
func (c *verifConn) LocalAddr() net.Addr                       { return nil }
func (c *verifConn) SetDeadline(t time.Time) error             { return nil }
func (c *verifConn) SetReadDeadline(t time.Time) error         { return nil }
func (c *verifConn) SetWriteDeadline(t time.Time) error        { return nil }
