package packet

import (
	"net"
	"net/netip"
)

// ---- symbolic pre-states of the host / MAC tables (all shapes up to maxMACs x maxHosts, all field values),
// constrained by the representation invariant Inv (I1..I5 of DESIGN §4 C04-C06).

type verifHostRec struct {
	h      *Host
	e      *MACEntry
	mac    []byte // private copy of the MAC value
	ip     netip.Addr
	online bool
	is4    bool
}

type verifPre struct {
	hosts []verifHostRec
	macs  [][]byte
}

func verifLANIP() netip.Addr { return netip.AddrFrom4([4]byte{192, 168, 0, verifU8()}) }

func verifLLA() netip.Addr {
	b := verifBytes(8)
	return netip.AddrFrom16([16]byte{0xfe, 0x80, 0, 0, 0, 0, 0, 0, b[0], b[1], b[2], b[3], b[4], b[5], b[6], b[7]})
}

// verifBuildState populates s with an arbitrary Inv-state. The session's own host/router entries are not
// materialised (they never age and Parse ignores frames from the host MAC).
// verifShape decodes the job split value k into a heap shape: number of MAC entries (0..2), hosts per entry and
// the address family of each host. Shapes: no entry; one entry with 1..h1 hosts; two entries with 1..h2 hosts each.
func verifShapeCount(h1, h2 int) int {
	n := 1
	for a := 1; a <= h1; a++ {
		n += 1 << a
	}
	for a := 1; a <= h2; a++ {
		for b := 1; b <= h2; b++ {
			n += 1 << (a + b)
		}
	}
	return n
}

func verifShape(k, h1, h2 int) (nh []int, fam int) {
	if k == 0 {
		return nil, 0
	}
	k--
	for a := 1; a <= h1; a++ {
		if k < 1<<a {
			return []int{a}, k
		}
		k -= 1 << a
	}
	for a := 1; a <= h2; a++ {
		for b := 1; b <= h2; b++ {
			if k < 1<<(a+b) {
				return []int{a, b}, k
			}
			k -= 1 << (a + b)
		}
	}
	verifAssume(false)
	return nil, 0
}

func verifBuildState(s *Session, h1, h2 int, nowNS int64) *verifPre {
	pre := &verifPre{}
	shape, fam := verifShape(verifSplit(verifShapeCount(h1, h2)), h1, h2)
	nm := len(shape)
	hostNo := 0
	for i := 0; i < nm; i++ {
		mac := verifBytes(6)
		verifAssume(mac[0]&1 == 0)
		verifAssume(verifMACDiff(mac, s.NICInfo.HostAddr4.MAC) != 0)
		for _, m := range pre.macs {
			verifAssume(verifMACDiff(mac, m) != 0) // I1
		}
		pre.macs = append(pre.macs, mac)
		e := &MACEntry{MAC: net.HardwareAddr(mac), IP4: IPv4zero, IP6GUA: IPv6zero, IP6LLA: IPv6zero}
		e.Captured = verifBool()
		e.IsRouter = verifBool()
		e.LastSeen = verifTime(nowNS - int64(verifU32())*1000000)
		nh := shape[i]
		online4 := 0
		anyOnline := false
		for k := 0; k < nh; k++ {
			var ip netip.Addr
			is4 := fam&(1<<hostNo) == 0
			hostNo++
			if is4 {
				ip = verifLANIP()
			} else {
				ip = verifLLA()
			}
			for _, r := range pre.hosts {
				verifAssume(r.ip != ip) // I2: distinct keys
			}
			h := &Host{Addr: Addr{MAC: e.MAC, IP: ip}, MACEntry: e, HuntStage: StageNormal}
			h.Online = verifBool()
			h.LastSeen = verifTime(nowNS - int64(verifU32())*1000000) // up to ~71 minutes in the past (ms granularity)
			if h.Online {
				anyOnline = true
				if is4 {
					online4++
					e.IP4 = ip // I5
				} else {
					e.IP6LLA = ip
				}
			}
			e.HostList = append(e.HostList, h)
			s.HostTable.Table[ip] = h
			pre.hosts = append(pre.hosts, verifHostRec{h: h, e: e, mac: mac, ip: ip, online: h.Online, is4: is4})
		}
		verifAssume(online4 <= 1) // I5
		e.Online = anyOnline || verifBool()
		if anyOnline {
			verifAssume(e.Online) // I4
		}
		s.MACTable.Table = append(s.MACTable.Table, e)
	}
	return pre
}

// verifCheckInv asserts the table invariants of C05 on the current state.
func verifCheckInv(s *Session, id string) {
	count := 0
	for i, e := range s.MACTable.Table {
		verifAssert(len(e.MAC) == 6, id+":mac-len")
		for j := 0; j < i; j++ {
			verifAssert(verifMACDiff(e.MAC, s.MACTable.Table[j].MAC) != 0, id+":mac-entries-unique")
		}
		for _, h := range e.HostList {
			count++
			verifAssert(s.HostTable.Table[h.Addr.IP] == h, id+":listed-host-indexed-under-its-ip")
			verifAssert(h.MACEntry == e, id+":host-belongs-to-listing-entry")
			verifAssert(verifMACDiff(h.Addr.MAC, e.MAC) == 0, id+":host-mac-equals-entry-mac")
			verifAssert(!h.Online || e.Online, id+":online-host-implies-online-mac")
		}
		for a := 0; a < len(e.HostList); a++ {
			for b := 0; b < a; b++ {
				verifAssert(e.HostList[a] != e.HostList[b], id+":host-listed-once")
			}
		}
	}
	verifAssert(count == len(s.HostTable.Table), id+":index-size-equals-listed-hosts")
	s.printHostTable() // its self-check must not panic
}

// verifDrain empties the notification channel.
func verifDrain(s *Session) []Notification {
	var out []Notification
	for {
		select {
		case n := <-s.C:
			out = append(out, n)
		default:
			return out
		}
	}
}

// ---- frame templates (every header field symbolic unless fixed below)

func verifFrame4() []byte {
	b := verifBytes(34)
	verifAssume(b[12] == 0x08 && b[13] == 0x00)
	verifAssume(b[14] == 0x45 && b[16] == 0 && b[17] == 20) // IHL 20, TotalLen 20
	verifAssume(b[14+9] != 6 && b[14+9] != 17 && b[14+9] != 1 && b[14+9] != 58 && b[14+9] != 2)
	return b
}

func verifFrameARP() []byte {
	b := verifBytes(42)
	verifAssume(b[12] == 0x08 && b[13] == 0x06 && b[14+4] == 6 && b[14+5] == 4)
	return b
}

func verifFrame6() []byte {
	b := verifBytes(54)
	verifAssume(b[12] == 0x86 && b[13] == 0xdd && b[14+4] == 0 && b[14+5] == 0)
	verifAssume(b[14+6] != 6 && b[14+6] != 17 && b[14+6] != 1 && b[14+6] != 58 && b[14+6] != 2)
	return b
}
