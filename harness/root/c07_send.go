package packet

import (
	"net"
	"net/netip"
	"time"
)

// ---- reference checks on a transmitted frame

func verifSum16(b []byte, s uint32) uint32 { // big-endian 16-bit words added to s (no folding)
	n := len(b)
	for i := 0; i+1 < n; i += 2 {
		s += uint32(b[i])<<8 | uint32(b[i+1])
	}
	if n&1 == 1 {
		s += uint32(b[n-1]) << 8
	}
	return s
}

func verifFold(s uint32) uint16 {
	s = (s & 0xffff) + (s >> 16)
	s = (s & 0xffff) + (s >> 16)
	return uint16(s)
}

// verifSentCommon: complete Ethernet frame sourced from the host NIC MAC.
func verifSentCommon(f []byte, host net.HardwareAddr, dstMAC []byte, id string) bool {
	verifAssert(len(f) >= 14, id+":frame-has-ethernet-header")
	if len(f) < 14 {
		return false
	}
	verifAssert(verifMACDiff(f[6:12], host) == 0, id+":ethernet-source-is-host-nic-mac")
	if dstMAC != nil {
		verifAssert(verifMACDiff(f[0:6], dstMAC) == 0, id+":ethernet-destination-as-requested")
	}
	return true
}

// verifSent4: IPv4 packet carrying ICMP; returns the ICMP message.
func verifSent4(f []byte, src, dst netip.Addr, id string) []byte {
	verifAssert(verifBE16(f, 12) == 0x0800 && len(f) >= 34, id+":ipv4-ethertype-and-header")
	if len(f) < 34 || verifBE16(f, 12) != 0x0800 {
		return nil
	}
	ip := f[14:]
	tl := int(verifBE16(ip, 2))
	verifAssert(ip[0] == 0x45 && tl == len(ip) && ip[9] == 1, id+":ipv4-header-consistent-with-frame-length")
	verifAssert(verifAddr4(ip, 12) == src && verifAddr4(ip, 16) == dst, id+":ipv4-addresses-as-requested")
	verifAssertHard(verifFold(verifSum16(ip[:20], 0)) == 0xffff, id+":ipv4-header-checksum-verifies")
	verifAssertHard(verifFold(verifSum16(ip[20:], 0)) == 0xffff, id+":icmp4-checksum-verifies")
	return ip[20:]
}

// verifSent6: IPv6 packet carrying ICMPv6; returns the ICMPv6 message.
func verifSent6(f []byte, src, dst netip.Addr, libraryChoseDst bool, id string) []byte {
	verifAssert(verifBE16(f, 12) == 0x86dd && len(f) >= 54+4, id+":ipv6-ethertype-and-header")
	if len(f) < 58 || verifBE16(f, 12) != 0x86dd {
		return nil
	}
	ip := f[14:]
	pl := int(verifBE16(ip, 4))
	verifAssert(ip[0]>>4 == 6 && pl+40 == len(ip) && ip[6] == 58, id+":ipv6-header-consistent-with-frame-length")
	verifAssert(verifAddr16(ip, 8) == src && verifAddr16(ip, 24) == dst, id+":ipv6-addresses-as-requested")
	if dst.IsLinkLocalUnicast() || dst.IsLinkLocalMulticast() {
		verifAssert(ip[7] == 255, id+":link-local-ndp-uses-hop-limit-255")
	}
	if libraryChoseDst && dst.IsMulticast() {
		verifAssert(f[0] == 0x33 && f[1] == 0x33 && f[2] == ip[24+12] && f[3] == ip[24+13] && f[4] == ip[24+14] && f[5] == ip[24+15], id+":ipv6-multicast-uses-33-33-mac")
	}
	// pseudo header: source, destination, upper-layer length, next header 58
	if verifIsNative() {
		s := verifSum16(ip[8:40], 0)
		s += uint32(pl) + 58
		verifAssert(verifFold(verifSum16(ip[40:], s)) == 0xffff, id+":icmp6-checksum-verifies")
		return ip[40:]
	}
	// Engine: Checksum is an uninterpreted function here (C15 proves Checksum == RFC 1071 separately), so
	// "verifies" reduces to: its last call received exactly the RFC 4443 pseudo-header followed by the message
	// with a zero checksum field, and the result was stored in the checksum field (low byte first).
	k := verifChecksumCalls() - 1
	verifAssert(k >= 0, id+":icmp6-checksum-computed")
	if k < 0 {
		return ip[40:]
	}
	arg, res := verifChecksumArg(k), verifChecksumResult(k)
	msg := ip[40:]
	verifAssert(len(arg) == 40+pl, id+":icmp6-checksum-covers-pseudo-header-and-message")
	if len(arg) == 40+pl {
		ok := arg[32] == 0 && arg[33] == 0 && arg[34] == byte(pl>>8) && arg[35] == byte(pl) && arg[36] == 0 && arg[37] == 0 && arg[38] == 0 && arg[39] == 58
		for i := 0; i < 32; i++ {
			ok = ok && arg[i] == ip[8+i]
		}
		for i := 0; i < pl; i++ {
			if i == 2 || i == 3 {
				ok = ok && arg[40+i] == 0
			} else {
				ok = ok && arg[40+i] == msg[i]
			}
		}
		verifAssert(ok, id+":icmp6-checksum-input-is-rfc4443-pseudo-header-plus-message")
	}
	verifAssert(msg[2] == byte(res) && msg[3] == byte(res>>8), id+":icmp6-checksum-stored-in-message")
	return ip[40:]
}

func verifSendSession() (*Session, *verifConn) {
	s := verifSession(false)
	c := &verifConn{}
	s.Conn = c
	s.NICInfo.IFI = &net.Interface{MTU: 1500, Name: "eth0"}
	lla := verifLLA()
	s.NICInfo.HostLLA = netip.PrefixFrom(lla, 64)
	return s, c
}

// VerifC07Send: each session send path with arbitrary arguments; which selects the function.
func VerifC07Send(which int) {
	s, c := verifSendSession()
	host := s.NICInfo.HostAddr4.MAC
	dmac := verifBytes(6)
	switch which {
	case 0: // ARP request (the purge probe path)
		sender := Addr{MAC: net.HardwareAddr(verifBytes(6)), IP: verifAddr4Sym()}
		target := Addr{MAC: net.HardwareAddr(verifBytes(6)), IP: verifAddr4Sym()}
		err := s.arpRequest(net.HardwareAddr(dmac), sender, target)
		verifAssert(err == nil && len(c.frames) == 1, "arp:one-frame-sent")
		if len(c.frames) != 1 {
			return
		}
		f := c.frames[0]
		if !verifSentCommon(f, host, dmac, "arp") {
			return
		}
		verifAssert(len(f) == 42 && verifBE16(f, 12) == 0x0806, "arp:ethertype-and-length")
		a := ARP(f[14:])
		verifAssert(a.IsValid() == nil, "arp:payload-is-a-valid-arp-packet")
		verifAssert(verifBE16(f, 14) == 1 && verifBE16(f, 16) == 0x0800 && f[18] == 6 && f[19] == 4 && verifBE16(f, 20) == 1, "arp:header-fields")
		verifAssert(verifMACDiff(f[22:28], sender.MAC) == 0 && verifAddr4(f, 28) == sender.IP && verifMACDiff(f[32:38], target.MAC) == 0 && verifAddr4(f, 38) == target.IP, "arp:addresses-as-requested")
	case 1: // ICMPv4 echo request
		src, dst := Addr{MAC: host, IP: verifAddr4Sym()}, Addr{MAC: net.HardwareAddr(dmac), IP: verifAddr4Sym()}
		id, seq := verifU16(), verifU16()
		err := s.ICMP4SendEchoRequest(src, dst, id, seq)
		verifAssert(err == nil && len(c.frames) == 1, "echo4:one-frame-sent")
		if len(c.frames) != 1 {
			return
		}
		f := c.frames[0]
		if !verifSentCommon(f, host, dmac, "echo4") {
			return
		}
		if m := verifSent4(f, src.IP, dst.IP, "echo4"); m != nil {
			verifAssert(len(m) >= 8 && m[0] == 8 && m[1] == 0 && verifBE16(m, 4) == id && verifBE16(m, 6) == seq, "echo4:icmp-fields-as-requested")
		}
	case 2: // ICMPv6 echo request
		src, dst := Addr{MAC: host, IP: verifAddr16Sym()}, Addr{MAC: net.HardwareAddr(dmac), IP: verifAddr16Sym()}
		verifAssume(src.IP.Is6() && dst.IP.Is6() && !src.IP.Is4In6() && !dst.IP.Is4In6())
		id, seq := verifU16(), verifU16()
		err := s.ICMP6SendEchoRequest(src, dst, id, seq)
		verifAssert(err == nil && len(c.frames) == 1, "echo6:one-frame-sent")
		if len(c.frames) != 1 {
			return
		}
		f := c.frames[0]
		if !verifSentCommon(f, host, dmac, "echo6") {
			return
		}
		if m := verifSent6(f, src.IP, dst.IP, false, "echo6"); m != nil {
			verifAssert(len(m) >= 8 && m[0] == 128 && m[1] == 0 && verifBE16(m, 4) == id && verifBE16(m, 6) == seq, "echo6:icmp-fields-as-requested")
		}
	case 3: // neighbour advertisement
		src, dst := Addr{MAC: host, IP: verifLLA()}, Addr{MAC: net.HardwareAddr(dmac), IP: verifLLA()}
		tmac := verifBytes(6)
		target := Addr{MAC: net.HardwareAddr(tmac), IP: verifAddr16Sym()}
		err := s.ICMP6SendNeighborAdvertisement(src, dst, target)
		verifAssert(err == nil && len(c.frames) == 1, "na:one-frame-sent")
		if len(c.frames) != 1 {
			return
		}
		f := c.frames[0]
		if !verifSentCommon(f, host, dmac, "na") {
			return
		}
		if m := verifSent6(f, src.IP, dst.IP, false, "na"); m != nil {
			verifAssert(len(m) == 32 && m[0] == 136 && m[4]&0x20 != 0 && verifAddr16(m, 8) == target.IP && m[24] == 2 && m[25] == 1 && verifMACDiff(m[26:32], tmac) == 0, "na:fields-as-requested")
		}
	case 4: // neighbour solicitation
		src := Addr{MAC: host, IP: verifLLA()}
		tip := verifLLA()
		dst := IPv6SolicitedNode(tip)
		err := s.ICMP6SendNeighbourSolicitation(src, dst, tip)
		verifAssert(err == nil && len(c.frames) == 1, "ns:one-frame-sent")
		if len(c.frames) != 1 {
			return
		}
		f := c.frames[0]
		if !verifSentCommon(f, host, nil, "ns") {
			return
		}
		if m := verifSent6(f, src.IP, dst.IP, true, "ns"); m != nil {
			verifAssert(len(m) == 32 && m[0] == 135 && verifAddr16(m, 8) == tip && m[24] == 1 && m[25] == 1 && verifMACDiff(m[26:32], host) == 0, "ns:fields-as-requested")
		}
	case 5: // router solicitation
		err := s.ICMP6SendRouterSolicitation()
		verifAssert(err == nil && len(c.frames) == 1, "rs:one-frame-sent")
		if len(c.frames) != 1 {
			return
		}
		f := c.frames[0]
		if !verifSentCommon(f, host, nil, "rs") {
			return
		}
		allRouters := netip.AddrFrom16([16]byte{0xff, 0x02, 15: 2})
		if m := verifSent6(f, s.NICInfo.HostLLA.Addr(), allRouters, true, "rs"); m != nil {
			verifAssert(len(m) == 16 && m[0] == 133 && m[8] == 1 && m[9] == 1 && verifMACDiff(m[10:16], host) == 0, "rs:fields")
		}
	case 6: // router advertisement: one or two prefixes (arbitrary, possibly equal), optional RDNSS with one server
		pb := verifBytes(16)
		plen := verifU8()
		verifAssume(plen <= 128)
		prefixes := []PrefixInformation{{PrefixLength: plen, Prefix: net.IP(pb)}}
		pbs, plens := [][]byte{pb}, []uint8{plen}
		if verifChoose(2) == 1 {
			pb2 := verifBytes(16)
			plen2 := verifU8()
			verifAssume(plen2 <= 128)
			prefixes = append(prefixes, PrefixInformation{PrefixLength: plen2, Prefix: net.IP(pb2)})
			pbs, plens = append(pbs, pb2), append(plens, plen2)
		}
		var rd *RecursiveDNSServer
		if verifChoose(2) == 1 {
			rd = &RecursiveDNSServer{Lifetime: 30 * time.Minute, Servers: []net.IP{net.IP(verifBytes(16))}}
		}
		dst := Addr{MAC: net.HardwareAddr(dmac), IP: verifLLA()}
		err := s.ICMP6SendRouterAdvertisement(prefixes, rd, dst)
		if err != nil { // e.g. a prefix length inconsistent with the prefix bytes: reported, nothing sent
			verifAssert(len(c.frames) == 0, "ra:error-sends-nothing")
			return
		}
		verifAssert(len(c.frames) == 1, "ra:one-frame-sent")
		if len(c.frames) != 1 {
			return
		}
		f := c.frames[0]
		if !verifSentCommon(f, host, dmac, "ra") {
			return
		}
		if m := verifSent6(f, s.NICInfo.HostLLA.Addr(), dst.IP, false, "ra"); m != nil {
			verifAssert(len(m) >= 16 && m[0] == 134 && m[4] == 64 && verifBE16(m, 6) == 1800, "ra:header-fields")
			// walk the options with an independent loop: all lengths non-zero and the walk ends exactly at the end
			i, okWalk, sawPrefix, sawLLA, np := 16, true, true, false, 0
			for i < len(m) {
				if i+2 > len(m) || m[i+1] == 0 || i+int(m[i+1])*8 > len(m) {
					okWalk = false
					break
				}
				if m[i] == 3 && m[i+1] == 4 { // the k-th prefix information option carries the k-th requested prefix
					if np < len(pbs) {
						sawPrefix = sawPrefix && m[i+2] == plens[np] && m[i+16] == pbs[np][0] && m[i+31] == pbs[np][15]
					}
					np++
				}
				if m[i] == 1 && m[i+1] == 1 {
					sawLLA = verifMACDiff(m[i+2:i+8], host) == 0
				}
				i += int(m[i+1]) * 8
			}
			verifAssert(okWalk, "ra:options-well-formed")
			verifAssert(sawPrefix && np == len(pbs) && sawLLA, "ra:prefix-and-source-lla-options-as-requested")
		}
	}
	verifReach("done")
}
