package packet

import (
	"net"
	"net/netip"
	"sync"
	"time"
)

// C09 (thread mode): two or three goroutines run API operations concurrently on one session. The engine explores
// the interleavings (context switches before every acquiring / blocking synchronisation operation, preemption
// bounded) and checks every heap access against the happens-before relation. Natively the same function runs real
// goroutines (replay under the race detector).

type verifNullConn struct{}

func (verifNullConn) ReadFrom(b []byte) (int, net.Addr, error)      { return 0, nil, nil }
func (verifNullConn) WriteTo(b []byte, a net.Addr) (int, error)      { return len(b), nil }
func (verifNullConn) Close() error                                   { return nil }
func (verifNullConn) LocalAddr() net.Addr                            { return nil }
func (verifNullConn) SetDeadline(t time.Time) error                  { return nil }
func (verifNullConn) SetReadDeadline(t time.Time) error              { return nil }
func (verifNullConn) SetWriteDeadline(t time.Time) error             { return nil }

var (
	verifC09MAC1 = net.HardwareAddr{2, 0, 0, 0, 1, 1}
	verifC09MAC2 = net.HardwareAddr{2, 0, 0, 0, 1, 2}
	verifC09MAC3 = net.HardwareAddr{2, 0, 0, 0, 1, 3}
	verifC09IP1  = netip.AddrFrom4([4]byte{192, 168, 0, 11})
	verifC09IP2  = netip.AddrFrom4([4]byte{192, 168, 0, 12})
	verifC09IP3  = netip.AddrFrom4([4]byte{192, 168, 0, 13})
	verifC09IP4  = netip.AddrFrom4([4]byte{192, 168, 0, 14})
)

// verifC09State: MAC1 with two IPv4 hosts, MAC2 with one; online flags and ages arbitrary within the table invariant.
func verifC09State(s *Session) []*Host {
	copy(s.NICInfo.HostAddr4.MAC, []byte{2, 0, 0, 0, 0, 1}) // concrete NIC addresses: fewer data-dependent forks
	copy(s.NICInfo.RouterAddr4.MAC, []byte{2, 0, 0, 0, 0, 2})
	mk := func(mac net.HardwareAddr) *MACEntry {
		e := &MACEntry{MAC: CopyMAC(mac), IP4: IPv4zero, IP6GUA: IPv6zero, IP6LLA: IPv6zero}
		e.LastSeen = verifTime(verifNow - int64(verifU32())*1000000)
		s.MACTable.Table = append(s.MACTable.Table, e)
		return e
	}
	var hosts []*Host
	add := func(e *MACEntry, ip netip.Addr) *Host {
		h := &Host{Addr: Addr{MAC: e.MAC, IP: ip}, MACEntry: e, HuntStage: StageNormal}
		h.Online = verifBool()
		h.LastSeen = verifTime(verifNow - int64(verifU32())*1000000)
		if h.Online {
			e.IP4 = ip
			e.Online = true
		}
		e.HostList = append(e.HostList, h)
		s.HostTable.Table[ip] = h
		hosts = append(hosts, h)
		return h
	}
	e1, e2 := mk(verifC09MAC1), mk(verifC09MAC2)
	h1 := add(e1, verifC09IP1)
	h2 := add(e1, verifC09IP2)
	add(e2, verifC09IP3)
	verifAssume(!(h1.Online && h2.Online)) // one online IPv4 address per MAC
	return hosts
}

// verifC09Frame: a minimal IPv4 frame (protocol 253) from (mac, ip) to the router.
func verifC09Frame(s *Session, mac net.HardwareAddr, ip netip.Addr) []byte {
	b := make([]byte, 34)
	copy(b[0:6], s.NICInfo.RouterAddr4.MAC)
	copy(b[6:12], mac)
	b[12], b[13] = 0x08, 0x00
	b[14], b[17], b[22], b[23] = 0x45, 20, 64, 253
	a := ip.As4()
	copy(b[26:30], a[:])
	copy(b[30:34], []byte{192, 168, 0, 1})
	return b
}

// verifC09Pending: a frame already parsed by the packet loop whose notification is still pending (set up before the
// goroutines start); operation 17 delivers it.
var verifC09Pending Frame

func verifC09Op(s *Session, op int, v int) {
	mac := verifC09MAC1
	ip := verifC09IP1
	if v&1 != 0 {
		mac = verifC09MAC2
	}
	if v&2 != 0 {
		ip = verifC09IP2
	}
	switch op {
	case 0: // the packet loop: Parse + Notify. v: 0 refresh (mac1,ip1); 1 ip1 claimed by mac2; 2 refresh (mac1,ip2); 3 (mac2,ip2); 4 new host (mac3, ip4)
		if v == 4 {
			mac, ip = verifC09MAC3, verifC09IP4
		}
		frame, err := s.Parse(verifC09Frame(s, mac, ip))
		if err == nil {
			s.Notify(frame)
		}
	case 1:
		s.purge(verifTime(verifNow))
	case 2:
		if h := s.FindIP(ip); h != nil { // documented use: lock the row to read the fields
			h.MACEntry.Row.RLock()
			_ = h.Online
			_ = h.LastSeen
			_ = h.MACEntry.IP4
			h.MACEntry.Row.RUnlock()
		}
	case 3:
		for _, h := range s.GetHosts() {
			h.MACEntry.Row.RLock()
			_ = h.Online
			_ = h.Addr
			h.MACEntry.Row.RUnlock()
		}
	case 4:
		_ = s.FindByMAC(mac)
	case 5:
		_ = s.FindMACEntry(mac)
	case 6:
		_ = s.Capture(mac)
	case 7:
		_ = s.Release(mac)
	case 8:
		_ = s.IsCaptured(mac)
	case 9:
		_ = s.IPAddrs(mac)
	case 10:
		s.SetDHCPv4IPOffer(mac, verifC09IP4, NameEntry{})
		_ = s.DHCPv4IPOffer(mac)
	case 11:
		s.PrintTable()
	case 12:
		_ = s.DHCPv4Update(mac, verifC09IP4, NameEntry{Type: "dhcp", Name: "n"})
	case 13: // a naming handler updating the host it looked up
		if h := s.FindIP(ip); h != nil {
			h.UpdateMDNSName(NameEntry{Type: "mdns", Name: "n"})
		}
	case 14:
		s.Close()
	case 17: // Notify alone (the Parse that precedes it ran before the other goroutine started)
		s.Notify(verifC09Pending)
	case 15: // the two DHCP offer accessors on their own (no incidental synchronisation between them)
		_ = s.DHCPv4IPOffer(mac)
	case 16:
		s.SetDHCPv4IPOffer(mac, verifC09IP4, NameEntry{})
	}
}

func verifC09Finish(s *Session) {
	verifReach("joined")
	verifCheckInv(s, "C09")
	// every lock was released: this thread can take each of them
	s.mutex.Lock()
	for _, e := range s.MACTable.Table {
		e.Row.Lock()
		e.Row.Unlock()
	}
	s.mutex.Unlock()
}

// VerifC09Pair: operations a (variant va) and b (variant vb) run concurrently from an arbitrary table state.
func VerifC09Pair(a, va, b, vb int) {
	s := verifSession(false)
	s.Conn = verifNullConn{}
	verifC09State(s)
	if a == 17 || b == 17 {
		mac, ip := verifC09MAC1, verifC09IP2
		if va+vb == 4 {
			mac, ip = verifC09MAC3, verifC09IP4
		}
		f, err := s.Parse(verifC09Frame(s, mac, ip))
		verifAssume(err == nil)
		verifC09Pending = f
	}
	var wg sync.WaitGroup
	wg.Add(2)
	go func() {
		defer wg.Done()
		verifC09Op(s, a, va)
	}()
	go func() {
		defer wg.Done()
		verifC09Op(s, b, vb)
	}()
	wg.Wait()
	verifC09Finish(s)
}

// VerifC09Triple: the packet loop, the purge and one API caller.
func VerifC09Triple(va, c, vc int) {
	s := verifSession(false)
	s.Conn = verifNullConn{}
	verifC09State(s)
	var wg sync.WaitGroup
	wg.Add(3)
	go func() {
		defer wg.Done()
		verifC09Op(s, 0, va)
	}()
	go func() {
		defer wg.Done()
		verifC09Op(s, 1, 0)
	}()
	go func() {
		defer wg.Done()
		verifC09Op(s, c, vc)
	}()
	wg.Wait()
	verifC09Finish(s)
}
