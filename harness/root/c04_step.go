package packet

import (
	"net"
	"net/netip"
	"time"
)

const verifNow = int64(1) << 60 // the step's "now" (ns); LastSeen values are offsets into the past

// verifExpect: the reference model's verdict for one pre-existing (MAC, IP) binding after the step.
type verifWant struct {
	present bool
	online  bool
}

// VerifC04Frame: one Parse+Notify step of an IPv4 (kind 4), ARP (kind 0) or IPv6 (kind 6) frame from an arbitrary Inv-state.
// Checks C05 (invariant preserved), C04 (transition specification), C06 (notification contract), C10 (no retained alias).
func VerifC04Frame(kind, h1, h2 int) {
	s := verifSession(false)
	pre := verifBuildState(s, h1, h2, verifNow)
	var b []byte
	switch kind {
	case 4:
		b = verifFrame4()
	case 0:
		b = verifFrameARP()
	default:
		b = verifFrame6()
	}
	verifTagInput(b)
	// the tracked identity carried by the frame
	ethSrc := b[6:12]
	var mac []byte
	var ip netip.Addr
	switch kind {
	case 4:
		mac, ip = ethSrc, verifAddr4(b, 14+12)
	case 0:
		mac, ip = b[14+8:14+14], verifAddr4(b, 14+14) // ARP sender hardware / protocol address
	default:
		mac, ip = ethSrc, verifAddr16(b, 14+8)
	}
	macv := make([]byte, 6)
	copy(macv, mac)
	unicast := ethSrc[0]&1 == 0
	notOwn := verifMACDiff(ethSrc, s.NICInfo.HostAddr4.MAC) != 0
	var eligible bool
	switch kind {
	case 4, 0:
		eligible = s.NICInfo.HomeLAN4.Contains(ip)
	default:
		eligible = ip.IsLinkLocalUnicast() || (ip.IsGlobalUnicast() && verifMACDiff(ethSrc, s.NICInfo.RouterAddr4.MAC) != 0)
	}
	track := unicast && notOwn && eligible
	// pre-state facts about the identity
	var existing *verifHostRec // binding of this IP, if any
	for i := range pre.hosts {
		if pre.hosts[i].ip == ip {
			existing = &pre.hosts[i]
		}
	}
	sameMAC := existing != nil && verifMACDiff(existing.mac, macv) == 0
	wasOnline := sameMAC && existing.online

	f, err := s.Parse(b)
	verifAssert(err == nil, "template-frame-parses")
	if err != nil {
		return
	}
	s.Notify(f)
	notes := verifDrain(s)
	verifReach("stepped")

	verifCheckInv(s, "C05")
	verifNoInputAlias(s, "C10:session-retains-packet-buffer")

	// ---- C04: transition specification
	got := s.FindIP(ip)
	if !track {
		// nothing may change
		verifAssert(len(s.HostTable.Table) == len(pre.hosts), "C04:untracked-source-creates-or-removes-nothing")
		for _, r := range pre.hosts {
			h := s.FindIP(r.ip)
			verifAssert(h == r.h && h.Online == r.online, "C04:untracked-source-changes-nothing")
		}
		verifAssert(len(notes) == 0, "C06:untracked-source-notifies-nothing")
		return
	}
	verifAssert(got != nil && got.Online && verifMACDiff(got.Addr.MAC, macv) == 0 && got.Addr.IP == ip, "C04:tracked-source-present-online-with-its-mac")
	is4 := ip.Is4()
	for _, r := range pre.hosts {
		if r.ip == ip {
			continue
		}
		h := s.FindIP(r.ip)
		verifAssert(h == r.h, "C04:other-bindings-stay")
		if h == nil {
			continue
		}
		sibling := verifMACDiff(r.mac, macv) == 0
		if sibling && is4 && r.is4 && !wasOnline {
			verifAssert(!h.Online, "C04:new-ipv4-marks-other-ipv4-of-same-mac-offline")
		} else {
			verifAssert(h.Online == r.online, "C04:unrelated-online-state-unchanged")
		}
	}
	if existing != nil && !sameMAC {
		// re-binding: the old MAC entry is gone iff it became empty
		stillThere := false
		for _, e := range s.MACTable.Table {
			if e == existing.e {
				stillThere = true
			}
		}
		others := 0
		for _, r := range pre.hosts {
			if r.e == existing.e && r.ip != ip {
				others++
			}
		}
		verifAssert(stillThere == (others > 0), "C04:rebinding-removes-emptied-mac-entry")
	}
	// ---- C06: notification contract for this step (pre-state is clean: no pending notifications)
	if wasOnline {
		verifAssert(len(notes) == 0, "C06:repeat-traffic-from-online-host-notifies-nothing")
		return
	}
	verifAssert(len(notes) >= 1, "C06:first-sight-or-return-notifies")
	if len(notes) == 0 {
		return
	}
	last := notes[len(notes)-1]
	verifAssert(last.Online && last.Addr.IP == ip && verifMACDiff(last.Addr.MAC, macv) == 0, "C06:online-notification-last-and-matches-state")
	verifAssert(last.IsRouter == got.MACEntry.IsRouter, "C06:router-flag-equals-tracked-state")
	// the notifications before it are exactly the superseded online IPv4 siblings, offline, each once
	want := 0
	for _, r := range pre.hosts {
		if r.ip != ip && verifMACDiff(r.mac, macv) == 0 && is4 && r.is4 && r.online {
			want++
			found := 0
			for _, n := range notes[:len(notes)-1] {
				if n.Addr.IP == r.ip {
					found++
					verifAssert(!n.Online, "C06:superseded-address-reported-offline")
				}
			}
			verifAssert(found == 1, "C06:superseded-address-reported-exactly-once-before-online")
		}
	}
	verifAssert(len(notes) == want+1, "C06:no-extra-notifications")
	verifAssert(!got.dirty, "C06:nothing-left-pending")
}

// VerifC04Purge: one purge(now) step from an arbitrary Inv-state.
func VerifC04Purge(h1, h2 int) {
	s := verifSession(false)
	s.Conn = &verifConn{}
	pre := verifBuildState(s, h1, h2, verifNow)
	now := verifTime(verifNow)
	s.purge(now)
	verifDropGoroutines() // probe frames are C07's business
	notes := verifDrain(s)
	verifReach("stepped")
	verifCheckInv(s, "C05")
	offCut := verifNow - int64(s.OfflineDeadline)
	delCut := verifNow - int64(s.PurgeDeadline)
	nOff := 0
	for _, r := range pre.hosts {
		last := verifTimeNS(r.h.LastSeen)
		h := s.FindIP(r.ip)
		switch {
		case !r.online && last < delCut:
			verifAssert(h == nil, "C04:offline-host-silent-past-purge-deadline-removed")
		case r.online && last < offCut:
			nOff++
			verifAssert(h == r.h && !h.Online, "C04:online-host-silent-past-offline-deadline-goes-offline")
			found := 0
			for _, n := range notes {
				if n.Addr.IP == r.ip {
					found++
					verifAssert(!n.Online, "C06:ageing-reported-offline")
				}
			}
			verifAssert(found == 1, "C06:ageing-reported-exactly-once")
		default:
			verifAssert(h == r.h && h.Online == r.online, "C04:recently-seen-host-unchanged")
		}
	}
	verifAssert(len(notes) == nOff, "C06:purge-sends-only-ageing-notifications")
	// a MAC entry whose hosts were all removed is gone
	for _, e := range s.MACTable.Table {
		verifAssert(len(e.HostList) > 0, "C04:emptied-mac-entry-removed")
	}
}

// VerifC04DHCP: DHCPv4Update(mac, ip, name) followed by Parse+Notify of the client's DHCP frame.
func VerifC04DHCP(h1, h2 int) {
	s := verifSession(false)
	pre := verifBuildState(s, h1, h2, verifNow)
	mac := verifBytes(6)
	verifAssume(mac[0]&1 == 0 && verifMACDiff(mac, s.NICInfo.HostAddr4.MAC) != 0)
	ip := verifLANIP()
	verifTagInput(mac)
	var existing *verifHostRec
	for i := range pre.hosts {
		if pre.hosts[i].ip == ip {
			existing = &pre.hosts[i]
		}
	}
	sameMAC := existing != nil && verifMACDiff(existing.mac, mac) == 0
	wasOnline := sameMAC && existing.online
	err := s.DHCPv4Update(net.HardwareAddr(mac), ip, NameEntry{})
	verifAssert(err == nil, "dhcp-update-ok")
	verifReach("stepped")
	verifCheckInv(s, "C05")
	verifNoInputAlias(s, "C10:session-retains-dhcp-mac-buffer")
	got := s.FindIP(ip)
	verifAssert(got != nil && got.Online && verifMACDiff(got.Addr.MAC, mac) == 0, "C04:dhcp-update-binds-and-brings-online")
	for _, r := range pre.hosts {
		if r.ip == ip {
			continue
		}
		h := s.FindIP(r.ip)
		verifAssert(h == r.h, "C04:other-bindings-stay")
		if h == nil {
			continue
		}
		if verifMACDiff(r.mac, mac) == 0 && r.is4 && !wasOnline {
			verifAssert(!h.Online, "C04:new-ipv4-marks-other-ipv4-of-same-mac-offline")
		} else {
			verifAssert(h.Online == r.online, "C04:unrelated-online-state-unchanged")
		}
	}
	_ = time.Second
}
