package packet

// Harness prelude. The symbolic executor (gse) intercepts every verif*
// function by name; the bodies below are used only when a counterexample is
// replayed natively (values come from a tape written by the replay generator).

import (
	"runtime"
	"time"
)

var verifTapeInts []uint64
var verifTapeBytes [][]byte
var verifTapePos int
var verifAssumeFailed bool
var verifFailures []string

func verifNext() uint64 {
	if verifTapePos >= len(verifTapeInts) {
		verifTapePos++
		return 0
	}
	v := verifTapeInts[verifTapePos]
	verifTapePos++
	return v
}
func verifInt() int       { return int(verifNext()) }
func verifI64() int64     { return int64(verifNext()) }
func verifU8() uint8      { return uint8(verifNext()) }
func verifU16() uint16    { return uint16(verifNext()) }
func verifU32() uint32    { return uint32(verifNext()) }
func verifU64() uint64    { return verifNext() }
func verifBool() bool     { return verifNext() != 0 }
func verifBytes(n int) []byte {
	b := make([]byte, n)
	if verifTapePos < len(verifTapeBytes) {
		copy(b, verifTapeBytes[verifTapePos])
	}
	verifTapePos++
	return b
}
func verifString(n int) string { return string(verifBytes(n)) }

type verifAssumption struct{}

func verifAssume(b bool) {
	if !b {
		verifAssumeFailed = true
		panic(verifAssumption{})
	}
}
func verifAssert(b bool, id string) {
	if !b {
		verifFailures = append(verifFailures, id)
	}
}
func verifAssertCut(b bool, id string)  { verifAssert(b, id) }
func verifAssertHard(b bool, id string) { verifAssert(b, id) }
func verifReach(id string)              {}
func verifChoose(n int) int             { return int(verifNext()) % n }
func verifSplit(n int) int              { return int(verifNext()) % n }
func verifTagInput(b []byte)            {}
func verifConcretize(x int) int         { return x }

// verifCapFor(n, c): the capacity to use for a slice of length n. Natively, when a
// "reslice-beyond-length" finding is replayed, the capacity is clamped to the length so
// that reading spare capacity becomes an observable panic.
var verifClampCap bool

func verifCapFor(n, c int) int {
	if verifClampCap {
		return n
	}
	return c
}
func verifNoInputAlias(root interface{}, id string) {}
func verifInside(outer, inner []byte, id string) {
	if len(inner) == 0 {
		return
	}
	if verifOffset(outer, inner) < 0 {
		verifFailures = append(verifFailures, id+":provenance")
		return
	}
	off := cap(outer) - cap(inner)
	if off+len(inner) > len(outer) {
		verifFailures = append(verifFailures, id+":inside")
	}
}
func verifSameSlice(a, b []byte) bool {
	if len(a) != len(b) {
		return false
	}
	if len(a) == 0 {
		return true
	}
	return &a[0] == &b[0]
}
func verifOffset(outer, inner []byte) int {
	if inner == nil || cap(inner) == 0 || cap(outer) == 0 {
		return -1
	}
	if &outer[:cap(outer)][cap(outer)-1] != &inner[:cap(inner)][cap(inner)-1] {
		return -1
	}
	return cap(outer) - cap(inner)
}
func verifTime(ns int64) time.Time       { return time.Unix(0, ns) }
func verifTimeNS(t time.Time) int64      { return t.UnixNano() }
// native allocation monitor (replay only): heap allocations counted by the runtime between mark and check
var verifMS runtime.MemStats
var verifMallocs uint64

func verifAllocMark(on bool) {
	runtime.ReadMemStats(&verifMS)
	verifMallocs = verifMS.Mallocs
}
func verifNoAllocSince(id string) {
	runtime.ReadMemStats(&verifMS)
	if verifMS.Mallocs > verifMallocs {
		verifFailures = append(verifFailures, id)
	}
}
func verifRunGoroutines()                {}
func verifPendingGoroutines() int        { return 0 }
func verifDropGoroutines()               {}
