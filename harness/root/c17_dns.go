package packet

import (
	"net/netip"
	"time"
)

// C17 (decode layer): messages built by the independent builder (harness/shared/dnsbuild.go) are decoded with the
// real DecodeQuestion / DecodeAnswers; what is stored must equal what the builder wrote.


func verifC17Shape(sc int) []int {
	switch sc {
	case 4:
		return []int{63, 63, 63, 61} // longest legal name: 254 octets of labels + root
	case 5:
		l := make([]int, 127) // most labels a legal name can have
		for i := range l {
			l[i] = 1
		}
		return l
	case 1:
		return []int{3, 7, 3}
	case 2:
		return []int{20, 20, 20}
	}
	return []int{3, 2}
}

// VerifC17Records: sc selects the message shape (see the switch).
func VerifC17Records(sc int) {
	an := 1
	switch sc {
	case 0, 7:
		an = 3
	case 1, 6:
		an = 2
	}
	qt := uint16(1)
	if sc == 3 {
		qt = 12
	}
	if sc == 8 {
		qt = 28
	}
	m := verifDNSNew(verifU16(), 0x8180, 1, an, 0, 0)
	var q []byte
	lens := verifC17Shape(sc)
	if sc == 3 {
		m.fixed("4.3.2.1.in-addr.arpa")
		q = []byte("4.3.2.1.in-addr.arpa")
	} else {
		q = m.labels(nil, lens...)
	}
	m.root()
	m.u16(qt)
	m.u16(1)
	qend := m.i

	ttl1, ttl2, ttl3 := verifU32(), verifU32(), verifU32()
	ip1, ip2, ip6 := verifBytes(4), verifBytes(4), verifBytes(16)
	var owner2, cname, ptrname []byte
	switch sc {
	case 0: // two A records for the question name, AAAA for <label>.<second label of the question>
		m.ptr(12)
		at := m.rrHeader(1, ttl1)
		m.raw(ip1)
		m.rdEnd(at)
		m.ptr(12)
		at = m.rrHeader(1, ttl2)
		m.raw(ip2)
		m.rdEnd(at)
		owner2 = m.labels(nil, 2)
		m.ptr(12 + 1 + lens[0])
		owner2 = append(append(owner2, '.'), q[lens[0]+1:]...)
		at = m.rrHeader(28, ttl3)
		m.raw(ip6)
		m.rdEnd(at)
	case 1: // <q> CNAME <suffix of q>, then an A record whose owner is a pointer to the CNAME's rdata (pointer chain)
		m.ptr(12)
		at := m.rrHeader(5, ttl1)
		rd := m.i
		m.ptr(12 + 1 + lens[0])
		m.rdEnd(at)
		cname = q[lens[0]+1:]
		m.ptr(rd)
		at = m.rrHeader(1, ttl2)
		m.raw(ip1)
		m.rdEnd(at)
	case 2: // owner longer than the 64 byte scratch buffer; CNAME spelled out in full
		owner2 = m.labels(nil, 10)
		m.ptr(12)
		owner2 = append(append(owner2, '.'), q...)
		at := m.rrHeader(5, ttl1)
		cname = m.labels(nil, 30, 30)
		m.root()
		m.rdEnd(at)
	case 3: // PTR
		m.ptr(12)
		at := m.rrHeader(12, ttl1)
		ptrname = m.labels(nil, 5, 3)
		m.root()
		m.rdEnd(at)
	case 8: // a response that carries only an AAAA record
		m.ptr(12)
		at := m.rrHeader(28, ttl3)
		m.raw(ip6)
		m.rdEnd(at)
	case 4, 5:
		m.ptr(12)
		at := m.rrHeader(1, ttl1)
		m.raw(ip1)
		m.rdEnd(at)
	case 6: // a TXT record (ignored) before the A record
		m.ptr(12)
		at := m.rrHeader(16, ttl2)
		m.raw(verifBytes(5))
		m.rdEnd(at)
		m.ptr(12)
		at = m.rrHeader(1, ttl1)
		m.raw(ip1)
		m.rdEnd(at)
	case 7: // pointer to pointer to pointer
		o1 := m.i
		m.ptr(12)
		at := m.rrHeader(1, ttl1)
		m.raw(ip1)
		m.rdEnd(at)
		o2 := m.i
		m.ptr(o1)
		at = m.rrHeader(1, ttl2)
		m.raw(ip2)
		m.rdEnd(at)
		m.ptr(o2)
		at = m.rrHeader(28, ttl3)
		m.raw(ip6)
		m.rdEnd(at)
	}
	b := m.bytes()
	p := DNS(b)
	verifAssert(p.IsValid() == nil, "C17:well-formed-message-accepted")
	scratch := make([]byte, 0, 64)
	qq, off, err := DecodeQuestion(p, 12, scratch)
	verifAssert(err == nil, "C17:well-formed-question-accepted")
	if err != nil {
		return
	}
	verifAssert(off == qend, "C17:question-end-offset")
	verifAssert(verifStrEq(string(qq.Name), q), "C17:question-name")
	verifAssert(qq.Type == qt && qq.Class == 1, "C17:question-type-class")
	e := NewDNSEntry()
	e.Name = string(qq.Name)
	end, updated, err := e.DecodeAnswers(p, off, scratch)
	verifAssert(err == nil, "C17:well-formed-answers-accepted")
	if err != nil {
		return
	}
	verifReach("decoded")
	verifAssert(end == len(b) && updated, "C17:answers-end-offset-and-updated")
	a1, a2, a6 := verifAddr4(ip1, 0), verifAddr4(ip2, 0), verifAddr16(ip6, 0)
	switch sc {
	case 0, 7:
		r, ok := e.IP4Records[a1]
		verifAssert(ok && verifStrEq(r.Name, q) && r.IP == a1 && r.TTL == ttl1, "C17:a-record")
		if a1 != a2 {
			r, ok = e.IP4Records[a2]
			verifAssert(ok && verifStrEq(r.Name, q) && r.IP == a2 && r.TTL == ttl2, "C17:second-a-record")
			verifAssert(len(e.IP4Records) == 2, "C17:a-record-count")
		} else {
			verifAssert(len(e.IP4Records) == 1, "C17:a-record-count")
		}
		r, ok = e.IP6Records[a6]
		want := q
		if sc == 0 {
			want = owner2
		}
		verifAssert(ok && verifStrEq(r.Name, want) && r.IP == a6 && r.TTL == ttl3, "C17:aaaa-record")
		verifAssert(len(e.IP6Records) == 1 && len(e.CNameRecords) == 0 && len(e.PTRRecords) == 0, "C17:no-other-records")
	case 1, 2:
		own := q
		if sc == 2 {
			own = owner2
		}
		verifAssert(len(e.CNameRecords) == 1, "C17:cname-record-count")
		for k, r := range e.CNameRecords {
			verifAssert(verifStrEq(r.Name, own), "C17:cname-owner")
			verifAssert(verifStrEq(r.CName, cname), "C17:cname-target")
			verifAssert(r.TTL == ttl1 && k == r.Name, "C17:cname-ttl-key")
		}
		if sc == 1 {
			r, ok := e.IP4Records[a1]
			verifAssert(ok && verifStrEq(r.Name, cname) && r.TTL == ttl2 && len(e.IP4Records) == 1, "C17:a-record-after-cname")
		}
	case 3:
		verifAssert(len(e.PTRRecords) == 1, "C17:ptr-record-count")
		for k, r := range e.PTRRecords {
			verifAssert(verifStrEq(r.Name, ptrname) && k == r.Name, "C17:ptr-name")
			verifAssert(r.IP == netip.AddrFrom4([4]byte{1, 2, 3, 4}) && r.TTL == ttl1, "C17:ptr-ip-ttl")
		}
	case 8:
		r, ok := e.IP6Records[a6]
		verifAssert(ok && verifStrEq(r.Name, q) && r.IP == a6 && r.TTL == ttl3 && len(e.IP6Records) == 1, "C17:aaaa-only-record")
		verifAssert(len(e.IP4Records) == 0 && len(e.CNameRecords) == 0 && len(e.PTRRecords) == 0, "C17:no-other-records")
	case 4, 5, 6:
		r, ok := e.IP4Records[a1]
		verifAssert(ok && verifStrEq(r.Name, q) && r.IP == a1 && r.TTL == ttl1 && len(e.IP4Records) == 1, "C17:a-record")
		verifAssert(len(e.IP6Records) == 0 && len(e.CNameRecords) == 0 && len(e.PTRRecords) == 0, "C17:no-other-records")
	}
}

// VerifC17Malformed: every listed malformation is rejected with an error (and the decoders terminate).
func VerifC17Malformed(kind int) {
	m := verifDNSNew(verifU16(), 0x8180, 1, 1, 0, 0)
	rejectQ := true
	switch kind {
	case 0: // pointer to itself
		m.ptr(12)
	case 1: // label followed by a pointer back to the label
		m.labels(nil, 2)
		m.ptr(12)
	case 2: // two pointers pointing at each other
		m.ptr(14)
		m.ptr(12)
	case 3: // over-long / reserved label type: length octet 64..191
		l := verifU8()
		verifAssume(l >= 64 && l < 192)
		m.b[m.i] = l
		m.i++
		m.raw(verifBytes(int(70)))
		m.root()
	case 4: // pointer to or past the end of the message (patched below, once the length is known)
		m.ptr(0)
	case 5: // label running past the end of the message
		m.labels(nil, 3)
		m.b[m.i] = 40
		m.i++
		m.raw(verifBytes(3))
		b := m.bytes()
		_, _, err := DecodeQuestion(DNS(b), 12, make([]byte, 0, 64))
		verifReach("decoded")
		verifAssert(err != nil, "C17:label-past-end-rejected")
		return
	case 6, 7, 8: // malformed record after a good question
		rejectQ = false
		m.labels(nil, 3, 2)
	}
	if kind == 3 || kind >= 6 {
		m.root()
	}
	m.u16(1)
	m.u16(1)
	switch kind {
	case 6: // RDLENGTH larger than what is left
		m.ptr(12)
		at := m.rrHeader(1, verifU32())
		m.raw(verifBytes(4))
		x := verifU16()
		verifAssume(x > 4)
		m.b[at], m.b[at+1] = byte(x>>8), byte(x)
	case 7: // A record whose RDLENGTH is not 4 (rdata present)
		m.ptr(12)
		at := m.rrHeader(1, verifU32())
		n := verifChoose(8)
		verifAssume(n != 4)
		m.raw(verifBytes(n))
		m.rdEnd(at)
	case 8: // owner name is a pointer loop
		m.ptr(m.i)
		at := m.rrHeader(1, verifU32())
		m.raw(verifBytes(4))
		m.rdEnd(at)
	default:
		m.ptr(12)
		at := m.rrHeader(1, verifU32())
		m.raw(verifBytes(4))
		m.rdEnd(at)
	}
	b := m.bytes()
	if kind == 4 {
		t := verifU16()
		verifAssume(int(t) >= len(b) && t < 0x4000)
		b[12], b[13] = 0xc0|byte(t>>8), byte(t)
	}
	p := DNS(b)
	if p.IsValid() != nil {
		verifReach("decoded")
		return
	}
	scratch := make([]byte, 0, 64)
	qq, off, err := DecodeQuestion(p, 12, scratch)
	if rejectQ {
		verifReach("decoded")
		verifAssert(err != nil, "C17:malformed-question-name-rejected")
		return
	}
	if err != nil {
		return
	}
	e := NewDNSEntry()
	e.Name = string(qq.Name)
	_, _, err = e.DecodeAnswers(p, off, scratch)
	verifReach("decoded")
	verifAssert(err != nil, "C17:malformed-record-rejected")
}

// VerifC17Truncated: a well-formed message (question + A + CNAME records) cut at any offset before its end is
// rejected by one of the decoding stages.
func VerifC17Truncated() {
	m := verifDNSNew(verifU16(), 0x8180, 1, 2, 0, 0)
	m.labels(nil, 3, 2)
	m.root()
	m.u16(1)
	m.u16(1)
	m.ptr(12)
	at := m.rrHeader(1, verifU32())
	m.raw(verifBytes(4))
	m.rdEnd(at)
	m.ptr(12)
	at = m.rrHeader(5, verifU32())
	m.labels(nil, 2)
	m.ptr(16)
	m.rdEnd(at)
	b := m.bytes()
	cut := verifChoose(len(b))
	b = b[:cut:cut]
	verifTagInput(b)
	p := DNS(b)
	if p.IsValid() != nil {
		verifReach("decoded")
		return
	}
	scratch := make([]byte, 0, 64)
	qq, off, err := DecodeQuestion(p, 12, scratch)
	if err != nil {
		verifReach("decoded")
		return
	}
	e := NewDNSEntry()
	e.Name = string(qq.Name)
	_, _, err = e.DecodeAnswers(p, off, scratch)
	verifReach("decoded")
	verifAssert(err != nil, "C17:truncated-message-rejected")
}

// ---------------------------------------------------------------- merge algebra

func verifName(k int) string { return verifString(2)[:k] }

func verifNameEntry(shape int, typ string) NameEntry {
	n := NameEntry{Type: typ}
	n.Name = verifName(shape % 3)
	n.Model = verifName(shape / 3 % 3)
	n.OS = verifName(shape / 9 % 2)
	n.Manufacturer = verifName(shape / 18 % 2)
	if verifBool() {
		n.Expire = verifTime(verifI64())
	}
	return n
}

func verifAttrsEq(a, b NameEntry) bool {
	return a.Name == b.Name && a.Model == b.Model && a.OS == b.OS && a.Manufacturer == b.Manufacturer
}

func verifMergeSpec(e, n, m NameEntry, mod bool, id string) {
	verifAssert(e.Name == "" || m.Name != "", "C17:"+id+":name-not-erased")
	verifAssert(e.Model == "" || m.Model != "", "C17:"+id+":model-not-erased")
	verifAssert(e.OS == "" || m.OS != "", "C17:"+id+":os-not-erased")
	verifAssert(e.Manufacturer == "" || m.Manufacturer != "", "C17:"+id+":manufacturer-not-erased")
	want := e
	if n.Name != "" {
		want.Name = n.Name
	}
	if n.Model != "" {
		want.Model = n.Model
	}
	if n.OS != "" {
		want.OS = n.OS
	}
	if n.Manufacturer != "" {
		want.Manufacturer = n.Manufacturer
	}
	verifAssert(verifAttrsEq(m, want), "C17:"+id+":learned-attributes-taken-known-ones-kept")
	verifAssert(mod == !verifAttrsEq(m, e), "C17:"+id+":change-reported-exactly-when-an-attribute-changed")
}

// VerifC17Merge: NameEntry.Merge for arbitrary entries (attribute strings of 0..2 arbitrary bytes) of one source.
func VerifC17Merge() {
	k := verifSplit(36)
	e := verifNameEntry(k, "src")
	n := verifNameEntry(verifChoose(36), "src")
	m, mod := e.Merge(n)
	verifReach("merged")
	verifMergeSpec(e, n, m, mod, "merge")
	m2, mod2 := m.Merge(n)
	verifAssert(!mod2 && verifAttrsEq(m2, m) && m2.Expire == m.Expire && m2.Type == m.Type, "C17:merge:idempotent")
	if !mod {
		verifAssert(m.Expire == e.Expire, "C17:merge:expiry-untouched-when-unchanged")
	}
}

// VerifC17HostUpdate: the five Host.Update*Name functions apply Merge to the host entry, set the dirty flag exactly on
// change, propagate to the MAC entry without erasing, and are idempotent.
func VerifC17HostUpdate(src int, full int) {
	k := verifSplit(12)
	typ := "src"
	// shapes: name 0..2 bytes, model 0..1, OS and manufacturer both empty or both one byte
	sh := func(k int) int { return k%3 + 3*(k/3%2) + 27*(k/6%2) }
	e := verifNameEntry(sh(k), typ)
	var me, n NameEntry
	if full != 0 {
		me = verifNameEntry(verifChoose(2)+3*verifChoose(2), typ)
		n = verifNameEntry(sh(verifChoose(12)), typ)
	} else {
		me = verifNameEntry(verifChoose(2), typ)
		n = verifNameEntry(sh(verifChoose(6)), typ)
	}
	host := &Host{MACEntry: &MACEntry{}}
	get := func() (NameEntry, NameEntry) {
		switch src {
		case 0:
			return host.DHCP4Name, host.MACEntry.DHCP4Name
		case 1:
			return host.MDNSName, host.MACEntry.MDNSName
		case 2:
			return host.SSDPName, host.MACEntry.SSDPName
		case 3:
			return host.LLMNRName, host.MACEntry.LLMNRName
		}
		return host.NBNSName, host.MACEntry.NBNSName
	}
	upd := func() {
		switch src {
		case 0:
			host.UpdateDHCP4Name(n)
		case 1:
			host.UpdateMDNSName(n)
		case 2:
			host.UpdateSSDPName(n)
		case 3:
			host.UpdateLLMNRName(n)
		default:
			host.UpdateNBNSName(n)
		}
	}
	switch src {
	case 0:
		host.DHCP4Name, host.MACEntry.DHCP4Name = e, me
	case 1:
		host.MDNSName, host.MACEntry.MDNSName = e, me
	case 2:
		host.SSDPName, host.MACEntry.SSDPName = e, me
	case 3:
		host.LLMNRName, host.MACEntry.LLMNRName = e, me
	default:
		host.NBNSName, host.MACEntry.NBNSName = e, me
	}
	upd()
	verifReach("merged")
	h1, m1 := get()
	verifMergeSpec(e, n, h1, host.dirty, "host-update")
	verifAssert(me.Name == "" || m1.Name != "", "C17:host-update:mac-entry-name-not-erased")
	verifAssert(me.Model == "" || m1.Model != "", "C17:host-update:mac-entry-model-not-erased")
	if host.dirty {
		verifAssert(n.Name == "" || m1.Name == n.Name, "C17:host-update:mac-entry-learns-the-name")
	} else {
		verifAssert(verifAttrsEq(m1, me), "C17:host-update:mac-entry-untouched-when-unchanged")
	}
	host.dirty = false
	upd()
	h2, m2 := get()
	verifAssert(!host.dirty && verifAttrsEq(h2, h1) && verifAttrsEq(m2, m1), "C17:host-update:idempotent")
	_ = time.Second
}
