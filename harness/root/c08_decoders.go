package packet

// Payload-level decoders on arbitrary bytes: no panic, no endless loop (solver-decided lasso), unwinding bound not hit.

func verifBuf(maxN int) ([]byte, int) {
	n := verifInt()
	c := verifInt()
	verifAssume(n >= 0 && n <= maxN && n <= c && c <= maxN+8)
	buf := verifBytes(maxN + 8)
	return buf[0:n:verifCapFor(n, c)], n
}

// verifBufSplit: like verifBuf but the length is a job-level split (one job per length minN..maxN).
func verifBufSplit(minN, maxN int) ([]byte, int) {
	n := minN + verifSplit(maxN-minN+1)
	c := verifInt()
	verifAssume(n <= c && c <= maxN+8)
	buf := verifBytes(maxN + 8)
	return buf[0:n:verifCapFor(n, c)], n
}

func VerifC08DecodeName(maxN int) {
	b, _ := verifBufSplit(0, maxN)
	off := verifInt()
	out := make([]byte, 0, 64)
	_, _, _ = decodeName(b, off, &out, 1)
	verifReach("done")
}

func VerifC08Question(maxN int) {
	b, _ := verifBufSplit(12, maxN)
	p := DNS(b)
	if p.IsValid() != nil {
		return
	}
	_, _, _ = DecodeQuestion(p, 12, make([]byte, 0, 64))
	verifReach("done")
}

// VerifC08Answers: question + answer section as ProcessDNS drives them.
func VerifC08Answers(maxN int) {
	b, _ := verifBufSplit(12, maxN)
	p := DNS(b)
	if p.IsValid() != nil {
		return
	}
	verifAssume(p.ANCount() <= 2)
	_, off, err := DecodeQuestion(p, 12, make([]byte, 0, 64))
	if err != nil {
		return
	}
	verifReach("question-ok")
	e := NewDNSEntry()
	_, _, _ = e.DecodeAnswers(p, off, make([]byte, 0, 64))
	verifReach("done")
}

func VerifC08NDPOptions(maxN int) {
	b, _ := verifBuf(maxN)
	_, _ = newParseOptions(b)
	verifReach("done")
}

func VerifC08HopByHop(maxN int) {
	b, _ := verifBuf(maxN)
	h := HopByHopExtensionHeader(b)
	if h.IsValid() {
		_, _ = h.ParseHopByHopExtensions()
	}
	verifReach("done")
}

func VerifC08LLDP(maxN int) {
	b, _ := verifBuf(maxN)
	l := LLDP(b)
	if l.IsValid() != nil {
		return
	}
	_ = l.GetPDU(verifChoose(10))
	verifReach("done")
}

func VerifC08DHCPOptions(maxN int) {
	b, _ := verifBuf(maxN)
	d := DHCP4(b)
	if d.IsValid() != nil {
		return
	}
	_ = d.ParseOptions()
	verifReach("done")
}

// VerifC08_8023: 802.3 frames accepted by Parse handed to the LLC/SNAP processor.
func VerifC08_8023(maxN int) {
	b, n := verifBuf(maxN)
	verifAssume(n >= 14)
	s := verifSession(false)
	f, err := s.Parse(b)
	if err != nil || f.PayloadID != Payload8023 {
		return
	}
	verifReach("8023")
	_, _, _ = Process8023Frame(f, 0)
	verifReach("done")
}

// ---- DNS message templates: a well-formed message with concrete structure in which the fields named by the
// property (counts, compression pointers, label lengths, record type, RDLENGTH, rdata) are made arbitrary,
// `nsym` of them at a time (all combinations), closed under truncation at every offset (job split).

// variant 0: question "abc" ; answer name = pointer to the question, 16 bytes of rdata ending in label+pointer
// variant 1: question name is a pointer ; answer name = label(2) + pointer
// variant 2: question "ab.c" ; two answers, the second name = pointer to the first answer's name
func verifDNSTemplate(variant int, n int, nsym int) []byte {
	buf := make([]byte, 80)
	var fields []int // offsets of the corruptible bytes
	i := 12
	lab := func(k int) {
		fields = append(fields, i)
		buf[i] = byte(k)
		for j := 1; j <= k; j++ {
			buf[i+j] = byte('a' + j)
		}
		i += 1 + k
	}
	ptr := func(target int) {
		buf[i], buf[i+1] = 0xc0, byte(target)
		fields = append(fields, i+1)
		i += 2
	}
	rr := func(rdata int) {
		copy(buf[i:i+10], []byte{0, 1, 0, 1, 0, 0, 1, 0, 0, byte(rdata)})
		fields = append(fields, i+1, i+9) // type, RDLENGTH
		i += 10
		fields = append(fields, i) // first rdata byte
		if rdata > 4 {
			j := i + rdata - 5
			buf[j], buf[j+1], buf[j+2] = 2, 'x', 'y'
			buf[j+3], buf[j+4] = 0xc0, 12
			fields = append(fields, j+4)
		}
		i += rdata
	}
	copy(buf[0:12], []byte{0x12, 0x34, 0x81, 0x80, 0, 1, 0, 1, 0, 0, 0, 0})
	fields = append(fields, 7) // ANCount
	switch variant {
	case 0:
		lab(3)
		i++
		buf[i+1], buf[i+3] = 1, 1
		i += 4
		ptr(12)
		rr(16)
	case 1:
		ptr(12)
		buf[i+1], buf[i+3] = 1, 1
		i += 4
		lab(2)
		ptr(12)
		rr(4)
	case 2:
		buf[7] = 2
		lab(2)
		lab(1)
		i++
		buf[i+1], buf[i+3] = 1, 1
		i += 4
		first := i
		lab(1)
		i++
		rr(4)
		ptr(first)
		rr(4)
	}
	verifAssume(n <= i)
	// make nsym of the fields arbitrary (every combination is explored)
	sym := verifBytes(len(fields))
	last := -1
	for k := 0; k < nsym; k++ {
		f := last + 1 + verifChoose(len(fields)-last-1)
		buf[fields[f]] = sym[f]
		last = f
		if last == len(fields)-1 {
			break
		}
	}
	verifAssume(buf[7] <= 2)
	c := verifInt()
	verifAssume(n <= c && c <= 80)
	return buf[0:n:verifCapFor(n, c)]
}

// one job per (variant, truncation length): split value = variant*64 + n
func VerifC08DNSTemplate(nsym int) {
	k := verifSplit(192)
	b := verifDNSTemplate(k/64, k%64, nsym)
	verifTagInput(b) // reading spare capacity beyond the message is reported as well
	p := DNS(b)
	if p.IsValid() != nil {
		return
	}
	_, off, err := DecodeQuestion(p, 12, make([]byte, 0, 64))
	if err != nil {
		return
	}
	verifReach("question-ok")
	e := NewDNSEntry()
	_, _, _ = e.DecodeAnswers(p, off, make([]byte, 0, 64))
	verifReach("done")
}
