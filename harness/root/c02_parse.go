package packet

// VerifC02Parse: Session.Parse against the reference decoder, field by field.
func VerifC02Parse() {
	n := verifInt()
	c := verifInt()
	verifAssume(0 <= n && n <= 1536 && n <= c && c <= 1600)
	buf := verifBytes(1600)
	verifEtherClass(buf, n, verifSplit(7))
	p := buf[0:n:verifCapFor(n, c)]
	s := verifSession(false)
	ref := verifRefDecode(buf[:n])
	f, err := s.Parse(p)
	verifAssert((err != nil) == ref.err, "error-iff-truncated-or-inconsistent")
	if err != nil || ref.err {
		return
	}
	verifReach("parsed")
	verifAssert(int(f.PayloadID) == ref.id, "payload-id")
	verifAssert(verifOffset(p, f.SrcAddr.MAC) == 6 && len(f.SrcAddr.MAC) == 6, "src-mac")
	verifAssert(verifOffset(p, f.DstAddr.MAC) == 0 && len(f.DstAddr.MAC) == 6, "dst-mac")
	if ref.offIP4 != 0 {
		verifAssert(verifOffset(p, f.IP4()) == ref.offIP4, "ip4-offset")
	} else {
		verifAssert(f.IP4() == nil, "ip4-absent")
	}
	if ref.offIP6 != 0 {
		verifAssert(verifOffset(p, f.IP6()) == ref.offIP6, "ip6-offset")
	} else {
		verifAssert(f.IP6() == nil, "ip6-absent")
	}
	if ref.offUDP != 0 {
		verifAssert(verifOffset(p, f.UDP()) == ref.offUDP, "udp-offset")
	} else {
		verifAssert(f.UDP() == nil, "udp-absent")
	}
	if ref.offTCP != 0 {
		verifAssert(verifOffset(p, f.TCP()) == ref.offTCP, "tcp-offset")
	} else {
		verifAssert(f.TCP() == nil, "tcp-absent")
	}
	verifAssert(f.HasIP() == (ref.offIP4 != 0 || ref.offIP6 != 0), "has-ip")
	if ref.hasSrcIP {
		verifAssert(f.SrcAddr.IP == ref.srcIP, "src-ip")
		verifAssert(f.DstAddr.IP == ref.dstIP, "dst-ip")
	}
	verifAssert(f.SrcAddr.Port == ref.srcPort, "src-port")
	verifAssert(f.DstAddr.Port == ref.dstPort, "dst-port")
	if ref.offPayload < n {
		verifAssert(verifOffset(p, f.Payload()) == ref.offPayload, "payload-offset")
		verifAssert(len(f.Payload()) == n-ref.offPayload, "payload-len")
	} else if ref.offPayload == n {
		verifAssert(len(f.Payload()) == 0, "payload-empty")
	}
}
