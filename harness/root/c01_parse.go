package packet

import (
	"net"
	"net/netip"
)

// verifSession builds a session without sockets or goroutines: symbolic host and
// router MACs, home LAN 192.168.0.0/24 unless wide is set (then a symbolic /8../30 prefix).
func verifSession(widePrefix bool) *Session {
	s := new(Session)
	hostMAC := net.HardwareAddr(verifBytes(6))
	routerMAC := net.HardwareAddr(verifBytes(6))
	lan := netip.PrefixFrom(netip.AddrFrom4([4]byte{192, 168, 0, 0}), 24)
	hostIP := netip.AddrFrom4([4]byte{192, 168, 0, 129})
	routerIP := netip.AddrFrom4([4]byte{192, 168, 0, 1})
	if widePrefix {
		nb := verifBytes(4)
		bits := verifInt()
		verifAssume(bits >= 8 && bits <= 30)
		lan = netip.PrefixFrom(netip.AddrFrom4([4]byte{nb[0], nb[1], nb[2], nb[3]}), bits).Masked()
		hb := verifBytes(4)
		hostIP = netip.AddrFrom4([4]byte{hb[0], hb[1], hb[2], hb[3]})
		rb := verifBytes(4)
		routerIP = netip.AddrFrom4([4]byte{rb[0], rb[1], rb[2], rb[3]})
		verifAssume(lan.Contains(hostIP) && lan.Contains(routerIP) && hostIP != routerIP)
	}
	s.NICInfo = &NICInfo{HomeLAN4: lan,
		HostAddr4:   Addr{MAC: hostMAC, IP: hostIP},
		RouterAddr4: Addr{MAC: routerMAC, IP: routerIP}}
	s.Statistics = make([]ProtoStats, 32)
	s.HostTable = newHostTable()
	s.MACTable = newMACTable()
	s.C = make(chan Notification, 128)
	s.closeChan = make(chan bool)
	s.ProbeDeadline = DefaultProbeDeadline
	s.OfflineDeadline = DefaultOfflineDeadline
	s.PurgeDeadline = DefaultPurgeDeadline
	return s
}

// verifEtherClass constrains the EtherType of buf to class k (a job-level split).
func verifEtherClass(buf []byte, n int, k int) {
	et := uint16(buf[12])<<8 | uint16(buf[13])
	if n < 14 {
		verifAssume(k == 0)
		return
	}
	switch k {
	case 0:
		verifAssume(et == 0x0800 && buf[14+9] == 17) // IPv4 UDP
	case 1:
		verifAssume(et == 0x0800 && buf[14+9] != 17)
	case 2:
		verifAssume(et == 0x86dd && buf[14+6] == 17)
	case 3:
		verifAssume(et == 0x86dd && buf[14+6] != 17)
	case 4:
		verifAssume(et == 0x0806)
	case 5:
		verifAssume(et < 1536)
	default:
		verifAssume(et >= 1536 && et != 0x0800 && et != 0x86dd && et != 0x0806)
	}
}

// VerifC01Parse: Session.Parse on an arbitrary buffer (length 0..1536, any capacity, any contents).
// tracked != 0: one pre-existing tracked host with symbolic MAC / on-LAN IP.
func VerifC01Parse(tracked int) {
	n := verifInt()
	c := verifInt()
	verifAssume(0 <= n && n <= 1536 && n <= c && c <= 1600)
	buf := verifBytes(1600)
	verifEtherClass(buf, n, verifSplit(7))
	p := buf[0:n:verifCapFor(n, c)]
	verifTagInput(p)
	s := verifSession(false)
	if tracked != 0 {
		ip := verifU8()
		s.findOrCreateHostWithLock(Addr{MAC: verifBytes(6), IP: netip.AddrFrom4([4]byte{192, 168, 0, ip})})
	}
	f, err := s.Parse(p)
	if err == nil {
		verifReach("parsed")
		verifInside(p, f.Ether(), "Frame.Ether")
		verifInside(p, f.IP4(), "Frame.IP4")
		verifInside(p, f.IP6(), "Frame.IP6")
		verifInside(p, f.UDP(), "Frame.UDP")
		verifInside(p, f.TCP(), "Frame.TCP")
		verifInside(p, f.Payload(), "Frame.Payload")
		verifInside(p, f.SrcAddr.MAC, "Frame.SrcAddr.MAC")
		verifInside(p, f.DstAddr.MAC, "Frame.DstAddr.MAC")
		_ = f.HasIP()
	}
}

// VerifC01LLDPArgs: the LLDP accessors that take arguments (excluded from the generated zero-argument view harness).
func VerifC01LLDPArgs(maxN int) {
	n := verifInt()
	c := verifInt()
	verifAssume(0 <= n && n <= maxN && n <= c && c <= 1600)
	buf := verifBytes(1600)
	b := buf[0:n:verifCapFor(n, c)]
	verifTagInput(b)
	p := LLDP(b)
	if p.IsValid() != nil {
		return
	}
	verifReach("valid")
	switch verifChoose(3) {
	case 0:
		t := verifInt()
		verifAssume(t >= 0 && t < 128)
		verifInside(b, p.GetPDU(t), "LLDP.GetPDU")
	case 1:
		_ = p.Type(int(verifU8()))
	case 2:
		v := verifBytes(3)
		_ = p.Capability(v[:verifChoose(4)])
	}
}
