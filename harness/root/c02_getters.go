package packet

import "net/netip"

// Field getters of valid views against RFC-position extractors.

func verifView(max int) ([]byte, int) {
	n := verifInt()
	verifAssume(n >= 0 && n <= max)
	buf := verifBytes(1600)
	return buf[:n], n
}

func VerifC02GetIP4() {
	b, n := verifView(1536)
	p := IP4(b)
	if p.IsValid() != nil {
		return
	}
	verifAssume(n >= 20) // reading the reference positions below needs the fixed header
	verifReach("valid")
	switch verifChoose(16) {
	case 0:
		verifAssert(p.IHL() == int(b[0]&0x0f)*4, "IP4.IHL")
	case 1:
		verifAssert(p.Version() == int(b[0]>>4), "IP4.Version")
	case 2:
		verifAssert(p.Protocol() == b[9], "IP4.Protocol")
	case 3:
		verifAssert(p.TOS() == int(b[1]), "IP4.TOS")
	case 4:
		verifAssert(p.ID() == int(verifBE16(b, 4)), "IP4.ID")
	case 5:
		verifAssert(p.Flags() == b[6]&0xe0, "IP4.Flags")
	case 6:
		verifAssert(p.FlagDontFragment() == (b[6]&0x40 != 0), "IP4.FlagDontFragment")
	case 7:
		verifAssert(p.FlagMoreFragments() == (b[6]&0x20 != 0), "IP4.FlagMoreFragments")
	case 8:
		verifAssert(p.Fragment() == verifBE16(b, 6)&0x1fff, "IP4.Fragment")
	case 9:
		verifAssert(p.TTL() == int(b[8]), "IP4.TTL")
	case 10:
		verifAssert(p.Checksum() == int(verifBE16(b, 10)), "IP4.Checksum")
	case 11:
		verifAssert(p.Src() == verifAddr4(b, 12), "IP4.Src")
	case 12:
		verifAssert(p.Dst() == verifAddr4(b, 16), "IP4.Dst")
	case 13:
		verifAssert(p.TotalLen() == int(verifBE16(b, 2)), "IP4.TotalLen")
	case 14:
		ihl, tl := int(b[0]&0x0f)*4, int(verifBE16(b, 2))
		verifAssume(ihl >= 20 && tl >= ihl) // RFC-consistent header (inconsistent ones are C01's business)
		pl := p.Payload()
		verifAssert(verifOffset(b, pl) == ihl || len(pl) == 0, "IP4.Payload.offset")
		verifAssert(len(pl) == tl-ihl, "IP4.Payload.len")
	}
}

func VerifC02GetIP6() {
	b, _ := verifView(1536)
	p := IP6(b)
	if p.IsValid() != nil {
		return
	}
	verifReach("valid")
	switch verifChoose(10) {
	case 0:
		verifAssert(p.Version() == int(b[0]>>4), "IP6.Version")
	case 1:
		verifAssert(p.TrafficClass() == int(b[0]&0x0f)<<4|int(b[1]>>4), "IP6.TrafficClass")
	case 2:
		verifAssert(p.FlowLabel() == int(b[1]&0x0f)<<16|int(b[2])<<8|int(b[3]), "IP6.FlowLabel")
	case 3:
		verifAssert(p.PayloadLen() == verifBE16(b, 4), "IP6.PayloadLen")
	case 4:
		verifAssert(p.NextHeader() == b[6], "IP6.NextHeader")
	case 5:
		verifAssert(p.HopLimit() == b[7], "IP6.HopLimit")
	case 6:
		verifAssert(p.Src() == verifAddr16(b, 8), "IP6.Src")
	case 7:
		verifAssert(p.Dst() == verifAddr16(b, 24), "IP6.Dst")
	case 8:
		pl := p.Payload()
		verifAssert(len(pl) == len(b)-40 && (len(pl) == 0 || verifOffset(b, pl) == 40), "IP6.Payload")
	case 9:
		verifAssert(p.HeaderLen() == 40, "IP6.HeaderLen")
	}
}

func VerifC02GetUDP() {
	b, _ := verifView(1536)
	p := UDP(b)
	if p.IsValid() != nil {
		return
	}
	verifReach("valid")
	switch verifChoose(6) {
	case 0:
		verifAssert(p.SrcPort() == verifBE16(b, 0), "UDP.SrcPort")
	case 1:
		verifAssert(p.DstPort() == verifBE16(b, 2), "UDP.DstPort")
	case 2:
		verifAssert(p.Len() == verifBE16(b, 4), "UDP.Len")
	case 3:
		verifAssert(p.Checksum() == verifBE16(b, 6), "UDP.Checksum")
	case 4:
		pl := p.Payload()
		verifAssert(len(pl) == len(b)-8 && (len(pl) == 0 || verifOffset(b, pl) == 8), "UDP.Payload")
	case 5:
		verifAssert(p.HeaderLen() == 8, "UDP.HeaderLen")
	}
}

func VerifC02GetTCP() {
	b, n := verifView(1536)
	p := TCP(b)
	if p.IsValid() != nil {
		return
	}
	verifReach("valid")
	switch verifChoose(19) {
	case 0:
		verifAssert(p.SrcPort() == verifBE16(b, 0), "TCP.SrcPort")
	case 1:
		verifAssert(p.DstPort() == verifBE16(b, 2), "TCP.DstPort")
	case 2:
		verifAssert(p.Seq() == uint32(verifBE16(b, 4))<<16|uint32(verifBE16(b, 6)), "TCP.Seq")
	case 3:
		verifAssert(p.Ack() == uint32(verifBE16(b, 8))<<16|uint32(verifBE16(b, 10)), "TCP.Ack")
	case 4:
		verifAssert(p.HeaderLen() == int(b[12]>>4)*4, "TCP.HeaderLen")
	case 5:
		verifAssert(p.NS() == (b[12]&1 != 0), "TCP.NS")
	case 6:
		verifAssert(p.FIN() == (b[13]&0x01 != 0), "TCP.FIN")
	case 7:
		verifAssert(p.SYN() == (b[13]&0x02 != 0), "TCP.SYN")
	case 8:
		verifAssert(p.RST() == (b[13]&0x04 != 0), "TCP.RST")
	case 9:
		verifAssert(p.PSH() == (b[13]&0x08 != 0), "TCP.PSH")
	case 10:
		verifAssert(p.ACK() == (b[13]&0x10 != 0), "TCP.ACK")
	case 11:
		verifAssert(p.URG() == (b[13]&0x20 != 0), "TCP.URG")
	case 12:
		verifAssert(p.ECE() == (b[13]&0x40 != 0), "TCP.ECE")
	case 13:
		verifAssert(p.CWR() == (b[13]&0x80 != 0), "TCP.CWR")
	case 14:
		verifAssert(p.Window() == verifBE16(b, 14), "TCP.Window")
	case 15:
		verifAssert(p.Checksum() == verifBE16(b, 16), "TCP.Checksum")
	case 16:
		verifAssert(p.Urgent() == verifBE16(b, 18), "TCP.Urgent")
	case 17:
		off := int(b[12]>>4) * 4
		verifAssume(off >= 20 && off <= n) // consistent data offset
		pl := p.Payload()
		verifAssert(len(pl) == n-off, "TCP.Payload.len")
		verifAssert(len(pl) == 0 || verifOffset(b, pl) == off, "TCP.Payload.offset")
	}
}

func VerifC02GetARP() {
	b, _ := verifView(1536)
	p := ARP(b)
	if p.IsValid() != nil {
		return
	}
	verifReach("valid")
	switch verifChoose(9) {
	case 0:
		verifAssert(p.HType() == verifBE16(b, 0), "ARP.HType")
	case 1:
		verifAssert(p.Proto() == verifBE16(b, 2), "ARP.Proto")
	case 2:
		verifAssert(p.HLen() == b[4], "ARP.HLen")
	case 3:
		verifAssert(p.PLen() == b[5], "ARP.PLen")
	case 4:
		verifAssert(p.Operation() == verifBE16(b, 6), "ARP.Operation")
	case 5:
		verifAssert(verifOffset(b, p.SrcMAC()) == 8 && len(p.SrcMAC()) == 6, "ARP.SrcMAC")
	case 6:
		verifAssert(p.SrcIP() == verifAddr4(b, 14), "ARP.SrcIP")
	case 7:
		verifAssert(verifOffset(b, p.DstMAC()) == 18 && len(p.DstMAC()) == 6, "ARP.DstMAC")
	case 8:
		verifAssert(p.DstIP() == verifAddr4(b, 24), "ARP.DstIP")
	}
}

func VerifC02GetICMP() {
	b, n := verifView(1536)
	p := ICMP(b)
	if p.IsValid() != nil {
		return
	}
	verifReach("valid")
	e := ICMPEcho(b)
	switch verifChoose(9) {
	case 0:
		verifAssert(p.Type() == b[0], "ICMP.Type")
	case 1:
		verifAssert(p.Code() == b[1], "ICMP.Code")
	case 2:
		verifAssert(p.Checksum() == verifBE16(b, 2), "ICMP.Checksum")
	case 3:
		verifAssert(verifOffset(b, p.RestOfHeader()) == 4 && len(p.RestOfHeader()) == 4, "ICMP.RestOfHeader")
	case 4:
		pl := p.Payload()
		verifAssert(len(pl) == n-8 && (len(pl) == 0 || verifOffset(b, pl) == 8), "ICMP.Payload")
	case 5:
		verifAssert(e.IsValid() == nil && e.EchoID() == verifBE16(b, 4), "ICMPEcho.EchoID")
	case 6:
		verifAssert(e.EchoSeq() == verifBE16(b, 6), "ICMPEcho.EchoSeq")
	case 7:
		pl := e.EchoData()
		verifAssert(len(pl) == n-8 && (len(pl) == 0 || verifOffset(b, pl) == 8), "ICMPEcho.EchoData")
	case 8:
		verifAssert(e.Type() == b[0] && e.Code() == b[1] && e.Checksum() == verifBE16(b, 2), "ICMPEcho.header")
	}
}

func VerifC02GetDNS() {
	b, _ := verifView(1536)
	p := DNS(b)
	if p.IsValid() != nil {
		return
	}
	verifReach("valid")
	switch verifChoose(13) {
	case 0:
		verifAssert(p.TransactionID() == verifBE16(b, 0), "DNS.TransactionID")
	case 1:
		verifAssert(p.QR() == (b[2]&0x80 != 0), "DNS.QR")
	case 2:
		verifAssert(p.OpCode() == int(b[2]>>3)&0x0f, "DNS.OpCode")
	case 3:
		verifAssert(p.AA() == (b[2]&0x04 != 0), "DNS.AA")
	case 4:
		verifAssert(p.TC() == (b[2]&0x02 != 0), "DNS.TC")
	case 5:
		verifAssert(p.RD() == (b[2]&0x01 != 0), "DNS.RD")
	case 6:
		verifAssert(p.RA() == (b[3]&0x80 != 0), "DNS.RA")
	case 7:
		verifAssert(p.Z() == (b[3]>>4)&0x07, "DNS.Z")
	case 8:
		verifAssert(p.ResponseCode() == int(b[3]&0x0f), "DNS.ResponseCode")
	case 9:
		verifAssert(p.QDCount() == verifBE16(b, 4), "DNS.QDCount")
	case 10:
		verifAssert(p.ANCount() == verifBE16(b, 6), "DNS.ANCount")
	case 11:
		verifAssert(p.NSCount() == verifBE16(b, 8), "DNS.NSCount")
	case 12:
		verifAssert(p.ARCount() == verifBE16(b, 10), "DNS.ARCount")
	}
}

func VerifC02GetDHCP4() {
	b, _ := verifView(244)
	p := DHCP4(b)
	if p.IsValid() != nil {
		return
	}
	verifReach("valid")
	switch verifChoose(13) {
	case 0:
		verifAssert(byte(p.OpCode()) == b[0], "DHCP4.OpCode")
	case 1:
		verifAssert(p.HType() == b[1] && p.HLen() == b[2] && p.Hops() == b[3], "DHCP4.HType/HLen/Hops")
	case 2:
		verifAssert(verifOffset(b, p.XId()) == 4 && len(p.XId()) == 4, "DHCP4.XId")
	case 3:
		verifAssert(p.Secs() == verifBE16(b, 8), "DHCP4.Secs")
	case 4:
		verifAssert(p.Flags() == verifBE16(b, 10), "DHCP4.Flags")
	case 5:
		verifAssert(p.CIAddr() == verifAddr4(b, 12), "DHCP4.CIAddr")
	case 6:
		verifAssert(p.YIAddr() == verifAddr4(b, 16), "DHCP4.YIAddr")
	case 7:
		verifAssert(p.SIAddr() == verifAddr4(b, 20), "DHCP4.SIAddr")
	case 8:
		verifAssert(p.GIAddr() == verifAddr4(b, 24), "DHCP4.GIAddr")
	case 9:
		verifAssert(verifOffset(b, p.CHAddr()) == 28 && len(p.CHAddr()) == 6, "DHCP4.CHAddr")
	case 10:
		verifAssert(verifOffset(b, p.Cookie()) == 236 && len(p.Cookie()) == 4, "DHCP4.Cookie")
	case 11:
		verifAssert(p.Broadcast() == (b[10]&0x80 != 0), "DHCP4.Broadcast")
	case 12:
		o := p.Options()
		verifAssert(len(o) == 0 || verifOffset(b, o) == 240, "DHCP4.Options")
	}
}

var _ = netip.Addr{}

// VerifC02GetLLDP: LLDP TLV getters against IEEE 802.1AB: TLV header = 7 bits type, 9 bits length.
func VerifC02GetLLDP() {
	b, n := verifView(1536)
	p := LLDP(b)
	if p.IsValid() != nil {
		return
	}
	verifReach("valid")
	t0 := int(b[0] >> 1)
	l0 := int(b[0]&1)<<8 | int(b[1])
	switch verifChoose(3) {
	case 0:
		c := p.ChassisID()
		if (t0 == 0 && l0 == 0) || 2+l0 > n {
			verifAssert(len(c) == 0, "LLDP.ChassisID.none")
		} else {
			verifAssert(len(c) == l0, "LLDP.ChassisID.len")
			verifAssert(l0 == 0 || verifOffset(b, c) == 2, "LLDP.ChassisID.off")
		}
	case 1:
		// second TLV (port id) after a well-formed chassis id TLV
		verifAssume(!(t0 == 0 && l0 == 0) && 2+l0+2 < n)
		o := 2 + l0
		verifAssume(o+1 < n)
		t1 := int(b[o] >> 1)
		l1 := int(b[o]&1)<<8 | int(b[o+1])
		v := p.PortID()
		if (t1 == 0 && l1 == 0) || o+2+l1 > n {
			verifAssert(len(v) == 0, "LLDP.PortID.none")
		} else {
			verifAssert(len(v) == l1, "LLDP.PortID.len")
			verifAssert(l1 == 0 || verifOffset(b, v) == o+2, "LLDP.PortID.off")
		}
	case 2:
		// GetPDU of the first TLV's own type returns the first TLV
		verifAssume(!(t0 == 0 && l0 == 0) && 2+l0 <= n)
		v := p.GetPDU(t0)
		verifAssert(len(v) == l0, "LLDP.GetPDU.first.len")
	}
}
