package packet

func VerifIP4View() {
	n := verifInt()
	c := verifInt()
	verifAssume(0 <= n && n <= 1536 && n <= c && c <= 1600)
	buf := verifBytes(1600)
	p := IP4(buf[0:n:c])
	if p.IsValid() == nil {
		_ = p.IHL()
		_ = p.Version()
		_ = p.Protocol()
		_ = p.TOS()
		_ = p.ID()
		_ = p.Flags()
		_ = p.Fragment()
		_ = p.TTL()
		_ = p.Checksum()
		_ = p.TotalLen()
		_ = p.Payload()
		_ = p.Src()
		_ = p.Dst()
	}
}
