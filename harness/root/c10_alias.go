package packet

// VerifC10NDPOptions: the option structure built from a router advertisement's option bytes (which the ICMPv6
// handler stores in its router table) never references the packet buffer.
func VerifC10NDPOptions(maxN int) {
	b, n := verifBuf(maxN)
	// job split on the type of the first option
	if n > 0 {
		types := []byte{1, 2, 3, 5, 24, 25, 31}
		if k := verifSplit(8); k < 7 {
			verifAssume(b[0] == types[k])
		} else {
			verifAssume(b[0] != 1 && b[0] != 2 && b[0] != 3 && b[0] != 5 && b[0] != 24 && b[0] != 25 && b[0] != 31)
		}
		verifAssume(n >= 2 && int(b[1])*8 == n) // exactly one option (option sequences are explored by C08)
		if b[0] == 31 {
			verifAssume(n <= 16) // DNSSL domain text: 8 bytes of names
		}
	} else {
		verifAssume(verifSplit(8) == 7)
	}
	verifTagInput(b)
	opts, err := newParseOptions(b)
	if err != nil {
		return
	}
	verifReach("parsed")
	verifNoInputAlias(opts, "C10:ndp-options-reference-packet-buffer")
}

// VerifC10DNSEntry: the DNS entry built by the answer decoder (stored in the naming handler's table) never
// references the packet buffer or the scratch buffer.
func VerifC10DNSEntry() {
	k := verifSplit(192)
	b := verifDNSTemplate(k/64, k%64, 1)
	verifTagInput(b)
	p := DNS(b)
	if p.IsValid() != nil {
		return
	}
	scratch := make([]byte, 0, 64)
	q, off, err := DecodeQuestion(p, 12, scratch)
	if err != nil {
		return
	}
	e := NewDNSEntry()
	e.Name = string(q.Name)
	if _, _, err := e.DecodeAnswers(p, off, scratch); err != nil {
		return
	}
	verifReach("parsed")
	verifNoInputAlias(e, "C10:dns-entry-references-packet-buffer")
	c := e.Copy()
	verifNoInputAlias(c, "C10:dns-entry-copy-references-packet-buffer")
}
