package packet

import "time"

// VerifC06Name: one name-update step from an arbitrary invariant table state. A naming source (src 0..4: DHCPv4, mDNS,
// SSDP, LLMNR, NBNS) reports a name entry for one tracked host (any host of the pre-state, online or offline); the
// caller then runs Notify for a frame of that host and drains the channel. Contract (C06): exactly one further
// notification when a learned attribute changed, none otherwise; its address, online flag, router flag and names equal
// the tracked state and carry the learned name; nothing is left pending and a second Notify emits nothing. C05: the
// table invariant is preserved; C04: no (MAC, IP, online) triple changes.
func VerifC06Name(src, h1, h2, ne int) {
	s := verifSession(false)
	pre := verifBuildState(s, h1, h2, verifNow)
	if len(pre.hosts) == 0 {
		verifReach("stepped")
		return
	}
	r := pre.hosts[verifChoose(len(pre.hosts))]
	host := r.h
	// previously known entry of this source on the host and on its MAC entry, and the update
	sh := func(k int) int { return k%3 + 3*(k/3%2) + 27*(k/6%2) }
	e := verifNameEntry(sh(verifChoose(ne)), "src")
	me := verifNameEntry(verifChoose(2), "src")
	n := verifNameEntry(sh(verifChoose(6)), "src")
	switch src {
	case 0:
		host.DHCP4Name, host.MACEntry.DHCP4Name = e, me
	case 1:
		host.MDNSName, host.MACEntry.MDNSName = e, me
	case 2:
		host.SSDPName, host.MACEntry.SSDPName = e, me
	case 3:
		host.LLMNRName, host.MACEntry.LLMNRName = e, me
	default:
		host.NBNSName, host.MACEntry.NBNSName = e, me
	}
	changed := (n.Name != "" && n.Name != e.Name) || (n.Model != "" && n.Model != e.Model) ||
		(n.OS != "" && n.OS != e.OS) || (n.Manufacturer != "" && n.Manufacturer != e.Manufacturer)
	switch src {
	case 0:
		host.UpdateDHCP4Name(n)
	case 1:
		host.UpdateMDNSName(n)
	case 2:
		host.UpdateSSDPName(n)
	case 3:
		host.UpdateLLMNRName(n)
	default:
		host.UpdateNBNSName(n)
	}
	s.Notify(Frame{Host: host, SrcAddr: host.Addr})
	notes := verifDrain(s)
	verifReach("stepped")
	verifCheckInv(s, "C05")
	for _, o := range pre.hosts {
		h := s.FindIP(o.ip)
		verifAssert(h == o.h && h.Online == o.online, "C04:name-update-changes-no-binding")
	}
	if !changed {
		verifAssert(len(notes) == 0, "C06:unchanged-name-notifies-nothing")
		return
	}
	verifAssert(len(notes) == 1, "C06:name-change-notifies-exactly-once")
	if len(notes) != 1 {
		return
	}
	nt := notes[0]
	verifAssert(nt.Addr.IP == r.ip && verifMACDiff(nt.Addr.MAC, r.mac) == 0, "C06:name-notification-address-equals-tracked-state")
	verifAssert(nt.Online == r.online, "C06:name-notification-online-flag-equals-tracked-state")
	verifAssert(nt.IsRouter == host.MACEntry.IsRouter, "C06:router-flag-equals-tracked-state")
	var got, hostE, macE NameEntry
	switch src {
	case 0:
		got, hostE, macE = nt.DHCP4Name, host.DHCP4Name, host.MACEntry.DHCP4Name
	case 1:
		got, hostE, macE = nt.MDNSName, host.MDNSName, host.MACEntry.MDNSName
	case 2:
		got, hostE, macE = nt.SSDPName, host.SSDPName, host.MACEntry.SSDPName
	case 3:
		got, hostE, macE = nt.LLMNRName, host.LLMNRName, host.MACEntry.LLMNRName
	default:
		got, hostE, macE = nt.NBNSName, host.NBNSName, host.MACEntry.NBNSName
	}
	if src == 3 { // LLMNR names are per host (toNotification documents: the MAC entry's names for the other sources)
		verifAssert(verifAttrsEq(got, hostE) || verifAttrsEq(got, macE), "C06:name-notification-names-equal-tracked-state")
	} else {
		verifAssert(verifAttrsEq(got, macE), "C06:name-notification-names-equal-tracked-state")
	}
	if n.Name != "" {
		verifAssert(got.Name == n.Name, "C06:name-notification-carries-the-learned-name")
	}
	verifAssert(!host.dirty, "C06:nothing-left-pending")
	s.Notify(Frame{Host: host, SrcAddr: host.Addr})
	verifAssert(len(verifDrain(s)) == 0, "C06:name-change-not-notified-twice")
	_ = time.Second
}
