package packet

import "net/netip"

// Independent reference decoder written from the RFCs (791, 8200, 768, 9293, 826, 792/4443) and
// the documented EtherType / IP-protocol / UDP-port table of the library (README, layer_frame.go
// comments). It reads b only below len(b).

type verifRef struct {
	err                          bool
	id                           int
	offIP4, offIP6, offUDP, offTCP int
	offPayload                   int
	hasSrcIP                     bool
	srcIP, dstIP                 netip.Addr
	srcPort, dstPort             uint16
	echoReply                    bool
	echoID                       uint16
}

func verifBE16(b []byte, i int) uint16 { return uint16(b[i])<<8 | uint16(b[i+1]) }

func verifAddr4(b []byte, i int) netip.Addr {
	return netip.AddrFrom4([4]byte{b[i], b[i+1], b[i+2], b[i+3]})
}
func verifAddr16(b []byte, i int) netip.Addr {
	var a [16]byte
	for k := 0; k < 16; k++ {
		a[k] = b[i+k]
	}
	return netip.AddrFrom16(a)
}

func verifUDPClass(sp, dp uint16) int {
	switch {
	case sp == 443 || dp == 443:
		return int(PayloadSSL)
	case dp == 67 || dp == 68:
		return int(PayloadDHCP4)
	case dp == 546 || dp == 547:
		return int(PayloadDHCP6)
	case sp == 53 || dp == 53:
		return int(PayloadDNS)
	case sp == 5353 || dp == 5353:
		return int(PayloadMDNS)
	case sp == 5355 || dp == 5355:
		return int(PayloadLLMNR)
	case sp == 123 || dp == 123:
		return int(PayloadNTP)
	case sp == 1900 || dp == 1900:
		return int(PayloadSSDP)
	case sp == 3702 || dp == 3702:
		return int(PayloadWSDP)
	case dp == 137 || dp == 138:
		return int(PayloadNBNS)
	case dp == 32412 || dp == 32414:
		return int(PayloadPlex)
	case sp == 10001 || dp == 10001:
		return int(PayloadUbiquiti)
	}
	return 0
}

func verifRefDecode(b []byte) (r verifRef) {
	n := len(b)
	if n < 14 {
		r.err = true
		return
	}
	r.id = int(PayloadEther)
	et := verifBE16(b, 12)
	hl := 14
	if et == 0x8100 {
		hl = 18
	}
	if et == 0x88a8 {
		hl = 22
	}
	if n < hl { // truncated VLAN tag(s)
		r.err = true
		return
	}
	r.offPayload = hl
	if b[6]&1 != 0 { // multicast / broadcast source: not decoded further
		return
	}
	if et < 1536 {
		r.id = int(Payload8023)
		return
	}
	var proto byte
	switch et {
	case 0x0800:
		r.id = int(PayloadIP4)
		if n < 14+20 {
			r.err = true
			return
		}
		ihl := int(b[14]&0x0f) * 4
		tl := int(verifBE16(b, 16))
		if ihl < 20 || n < 14+ihl || tl < ihl || n < 14+tl {
			r.err = true
			return
		}
		r.offIP4 = 14
		r.offPayload = 14 + ihl
		proto = b[14+9]
		r.hasSrcIP = true
		r.srcIP, r.dstIP = verifAddr4(b, 14+12), verifAddr4(b, 14+16)
	case 0x86dd:
		r.id = int(PayloadIP6)
		if n < 14+40 || int(verifBE16(b, 14+4))+40 != n-14 {
			r.err = true
			return
		}
		r.offIP6 = 14
		r.offPayload = 14 + 40
		proto = b[14+6]
		r.hasSrcIP = true
		r.srcIP, r.dstIP = verifAddr16(b, 14+8), verifAddr16(b, 14+24)
	case 0x0806:
		r.id = int(PayloadARP)
		if n < 14+28 || b[14+4] != 6 {
			r.err = true
		}
		return
	case 0x8808:
		r.id = int(PayloadEthernetPause)
		return
	case 0x8899:
		r.id = int(PayloadRRCP)
		return
	case 0x88cc:
		r.id = int(PayloadLLDP)
		return
	case 0x890d:
		r.id = int(Payload802_11r)
		return
	case 0x893a:
		r.id = int(PayloadIEEE1905)
		return
	case 0x6970:
		r.id = int(PayloadSonos)
		return
	case 0x880a:
		r.id = int(Payload880a)
		return
	default:
		return
	}
	rest := n - r.offPayload
	o := r.offPayload
	switch proto {
	case 17:
		r.id = int(PayloadUDP)
		if rest < 8 {
			r.err = true
			return
		}
		r.offUDP = o
		r.srcPort, r.dstPort = verifBE16(b, o), verifBE16(b, o+2)
		if c := verifUDPClass(r.srcPort, r.dstPort); c != 0 {
			r.id = c
			r.offPayload = o + 8
		}
	case 6:
		r.id = int(PayloadTCP)
		if rest < 20 {
			r.err = true
			return
		}
		r.offTCP = o
		r.srcPort, r.dstPort = verifBE16(b, o), verifBE16(b, o+2)
	case 1:
		if rest < 8 {
			r.err = true
			return
		}
		r.id = int(PayloadICMP4)
		if b[o] == 0 {
			r.echoReply, r.echoID = true, verifBE16(b, o+4)
		}
	case 58:
		if rest < 8 {
			r.err = true
			return
		}
		r.id = int(PayloadICMP6)
		if b[o] == 129 {
			r.echoReply, r.echoID = true, verifBE16(b, o+4)
		}
	case 2:
		r.id = int(PayloadIGMP)
	}
	return
}
