package packet

import (
	"net"
	"net/netip"
)

// VerifC16Alloc: Parse of a well-formed frame (reference decoder reports no error) from an already tracked,
// online host reaches no allocating instruction. family 4: IPv4 source on the LAN, 6: IPv6 link-local source,
// 0: ARP from the tracked sender.
func VerifC16Alloc(family int) {
	n := verifInt()
	verifAssume(n >= 14 && n <= 1536)
	buf := verifBytes(1600)
	p := buf[:n]
	s := verifSession(false)
	mac := verifBytes(6)
	verifAssume(mac[0]&1 == 0)
	verifAssume(verifMACDiff(s.NICInfo.HostAddr4.MAC, mac) != 0)
	verifAssume(verifMACDiff(s.NICInfo.RouterAddr4.MAC, mac) != 0)
	var ip netip.Addr
	switch family {
	case 4, 0:
		ip = netip.AddrFrom4([4]byte{192, 168, 0, verifU8()})
	default:
		b := verifBytes(16)
		var a [16]byte
		copy(a[:], b)
		a[0], a[1] = 0xfe, 0x80
		ip = netip.AddrFrom16(a)
	}
	h, _ := s.findOrCreateHostWithLock(Addr{MAC: net.HardwareAddr(mac), IP: ip})
	s.onlineTransition(h)
	// the frame comes from that host
	for i := 0; i < 6; i++ {
		verifAssume(buf[6+i] == mac[i])
	}
	ref := verifRefDecode(p)
	verifAssume(!ref.err)
	switch family {
	case 4:
		verifAssume(ref.offIP4 != 0 && ref.srcIP == ip)
	case 6:
		verifAssume(ref.offIP6 != 0 && ref.srcIP == ip)
	case 0:
		verifAssume(ref.id == int(PayloadARP) && n >= 42)
		for i := 0; i < 6; i++ {
			verifAssume(buf[14+8+i] == mac[i])
		}
		verifAssume(verifAddr4(buf, 14+14) == ip)
	}
	verifAllocMark(true)
	f, err := s.Parse(p)
	verifNoAllocSince("parse-steady-state")
	verifAssert(err == nil, "well-formed-frame-parses")
	verifAssert(f.Host == h, "tracked-host-found")
	verifReach("done")
}

// verifMACDiff is non-zero iff the two 6-byte addresses differ (branch-free).
func verifMACDiff(a, b []byte) byte {
	return (a[0] ^ b[0]) | (a[1] ^ b[1]) | (a[2] ^ b[2]) | (a[3] ^ b[3]) | (a[4] ^ b[4]) | (a[5] ^ b[5])
}
