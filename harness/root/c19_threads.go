package packet

import (
	"net"
	"net/netip"
	"sync"
	"time"
)

// C19 (thread mode): two goroutines ping concurrently while the packet loop goroutine parses the echo replies.
// The connection hands every transmitted request to the packet loop, which turns it into the target's reply.

type verifPipeConn struct {
	out chan []byte
}

func (c *verifPipeConn) WriteTo(b []byte, a net.Addr) (int, error) {
	cp := make([]byte, len(b))
	copy(cp, b)
	c.out <- cp
	return len(b), nil
}
func (c *verifPipeConn) ReadFrom(b []byte) (int, net.Addr, error) { return 0, nil, nil }
func (c *verifPipeConn) Close() error                              { return nil }
func (c *verifPipeConn) LocalAddr() net.Addr                       { return nil }
func (c *verifPipeConn) SetDeadline(t time.Time) error             { return nil }
func (c *verifPipeConn) SetReadDeadline(t time.Time) error         { return nil }
func (c *verifPipeConn) SetWriteDeadline(t time.Time) error        { return nil }

// VerifC19Concurrent: v6 selects Ping6; reverse: the replies are parsed in the opposite order of the requests;
// timeouts: 0 = timers never fire on the explored paths (both pings must succeed), 1 = a timer may fire.
func VerifC19Concurrent(v6 int, reverse int, timeouts int) {
	s := verifSession(false)
	copy(s.NICInfo.HostAddr4.MAC, []byte{2, 0, 0, 0, 0, 1})
	copy(s.NICInfo.RouterAddr4.MAC, []byte{2, 0, 0, 0, 0, 2})
	conn := &verifPipeConn{out: make(chan []byte, 4)}
	s.Conn = conn
	icmpTable.table = make(map[uint16]*icmpEntry)
	icmpTable.id = verifU16()
	mac := net.HardwareAddr{2, 0, 0, 0, 1, 1}
	var src, dst Addr
	off := 14 + 20
	if v6 == 0 {
		src = s.NICInfo.HostAddr4
		dst = Addr{MAC: mac, IP: netip.AddrFrom4([4]byte{192, 168, 0, 7})}
	} else {
		src = Addr{MAC: s.NICInfo.HostAddr4.MAC, IP: netip.AddrFrom16([16]byte{0xfe, 0x80, 15: 1})}
		dst = Addr{MAC: mac, IP: netip.AddrFrom16([16]byte{0xfe, 0x80, 15: 2})}
		off = 14 + 40
	}
	var errA, errB error
	var idA, idB uint16
	var wg sync.WaitGroup
	wg.Add(3)
	ping := func(e *error) {
		defer wg.Done()
		if v6 == 0 {
			*e = s.ping(src, dst, time.Second)
		} else {
			*e = s.Ping6(src, dst, time.Second)
		}
	}
	go ping(&errA)
	go ping(&errB)
	go func() { // the packet loop
		defer wg.Done()
		f1 := <-conn.out
		f2 := <-conn.out
		idA = uint16(f1[off+4])<<8 | uint16(f1[off+5])
		idB = uint16(f2[off+4])<<8 | uint16(f2[off+5])
		if reverse != 0 {
			f1, f2 = f2, f1
		}
		for _, f := range [][]byte{f1, f2} {
			r := make([]byte, len(f))
			copy(r, f)
			copy(r[0:6], f[6:12])
			copy(r[6:12], mac)
			if v6 == 0 {
				r[off] = 0
			} else {
				r[off] = 129
			}
			s.Parse(r)
		}
	}()
	wg.Wait()
	verifReach("joined")
	verifAssert(idA != idB, "C19:concurrent-pings-use-distinct-identifiers")
	verifAssert(errA == nil || errA == ErrTimeout, "C19:ping-returns-nil-or-timeout")
	verifAssert(errB == nil || errB == ErrTimeout, "C19:ping-returns-nil-or-timeout")
	if timeouts == 0 {
		verifAssert(errA == nil && errB == nil, "C19:each-ping-completed-by-its-own-reply")
	}
	icmpTable.Lock()
	verifAssert(len(icmpTable.table) == 0, "C19:no-waiter-left-behind")
	icmpTable.Unlock()
}
