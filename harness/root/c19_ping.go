package packet

import (
	"net"
	"net/netip"
	"time"
)

func verifChanClosed(c chan bool) bool {
	select {
	case <-c:
		return true
	default:
		return false
	}
}

// VerifC19Notify: echoNotify(id) from an arbitrary waiter table (<= 3 entries, distinct ids) completes and
// removes exactly the waiter registered under id.
func VerifC19Notify() {
	k := verifChoose(4)
	var ids [3]uint16
	var ents [3]*icmpEntry
	icmpTable.table = make(map[uint16]*icmpEntry)
	for i := 0; i < k; i++ {
		ids[i] = verifU16()
		for j := 0; j < i; j++ {
			verifAssume(ids[i] != ids[j])
		}
		ents[i] = &icmpEntry{wakeup: make(chan bool)}
		icmpTable.table[ids[i]] = ents[i]
	}
	id := verifU16()
	echoNotify(id)
	for i := 0; i < k; i++ {
		_, still := icmpTable.table[ids[i]]
		if ids[i] == id {
			verifAssert(ents[i].msgRecv && verifChanClosed(ents[i].wakeup) && !still, "own-waiter-completed-and-removed")
		} else {
			verifAssert(!ents[i].msgRecv && !verifChanClosed(ents[i].wakeup) && still, "foreign-waiter-untouched")
		}
	}
	verifReach("done")
}

// VerifC19Parse: a pending waiter is completed by Parse iff the frame is a well-formed ICMPv4 type 0 /
// ICMPv6 type 129 message carrying its identifier (reference decoder of C02).
func VerifC19Parse(v6 int) {
	n := verifInt()
	verifAssume(n >= 0 && n <= 80)
	buf := verifBytes(96)
	if v6 == 0 {
		verifAssume(buf[12] == 0x08 && buf[13] == 0x00 && buf[14+9] == 1)
	} else {
		verifAssume(buf[12] == 0x86 && buf[13] == 0xdd && buf[14+6] == 58)
	}
	s := verifSession(false)
	id := verifU16()
	w := &icmpEntry{wakeup: make(chan bool)}
	icmpTable.table = map[uint16]*icmpEntry{id: w}
	ref := verifRefDecode(buf[:n])
	_, err := s.Parse(buf[:n])
	want := !ref.err && ref.echoReply && ref.echoID == id
	verifAssert(err != nil || w.msgRecv == want, "completed-iff-own-echo-reply")
	if err != nil {
		verifAssert(!w.msgRecv, "error-frames-complete-nothing")
	}
	_, still := icmpTable.table[id]
	verifAssert(still == !w.msgRecv, "waiter-removed-iff-completed")
	verifReach("done")
}

// VerifC19Ping: ping / Ping6 against a programmable connection.
// mode 0: frame sent, no reply  -> ErrTimeout, no waiter left
// mode 1: send fails            -> error, no waiter left
// mode 2: matching echo reply is parsed while the ping waits -> nil, no waiter left
// mode 3: reply with a different identifier -> ErrTimeout
// mode 4: a second ping starts while the first is in flight -> distinct identifiers
func VerifC19Ping(v6 int, mode int) {
	s := verifSession(false)
	conn := &verifConn{fail: mode == 1}
	s.Conn = conn
	icmpTable.table = make(map[uint16]*icmpEntry)
	icmpTable.id = verifU16()
	mac := net.HardwareAddr(verifBytes(6))
	var src, dst Addr
	if v6 == 0 {
		src = s.NICInfo.HostAddr4
		dst = Addr{MAC: mac, IP: netip.AddrFrom4([4]byte{192, 168, 0, 7})}
	} else {
		src = Addr{MAC: s.NICInfo.HostAddr4.MAC, IP: netip.AddrFrom16([16]byte{0xfe, 0x80, 15: 1})}
		dst = Addr{MAC: mac, IP: netip.AddrFrom16([16]byte{0xfe, 0x80, 15: 2})}
	}
	off := 14 + 20
	if v6 != 0 {
		off = 14 + 40
	}
	depth := 0
	var ids [2]uint16
	conn.hook = func(frame []byte) {
		switch mode {
		case 2, 3:
			// turn the request into a reply coming from the target and feed it to Parse
			r := make([]byte, len(frame))
			copy(r, frame)
			copy(r[0:6], frame[6:12])
			copy(r[6:12], mac)
			r[6] &= 0xfe
			if v6 == 0 {
				r[off] = 0
			} else {
				r[off] = 129
			}
			if mode == 3 {
				r[off+5] ^= 1
			}
			s.Parse(r)
		case 4:
			ids[depth] = uint16(frame[off+4])<<8 | uint16(frame[off+5])
			if depth == 0 {
				depth++
				if v6 == 0 {
					s.ping(src, dst, time.Second)
				} else {
					s.Ping6(src, dst, time.Second)
				}
			}
		}
	}
	var err error
	if v6 == 0 {
		err = s.ping(src, dst, time.Second)
	} else {
		err = s.Ping6(src, dst, time.Second)
	}
	switch mode {
	case 0, 3:
		verifAssert(err == ErrTimeout, "no-own-reply-gives-timeout")
	case 1:
		verifAssert(err != nil, "send-error-reported")
	case 2:
		verifAssert(err == nil, "own-reply-completes")
	case 4:
		verifAssert(ids[0] != ids[1], "concurrent-pings-use-distinct-identifiers")
	}
	verifAssert(len(icmpTable.table) == 0, "no-waiter-left-behind")
	verifReach("done")
}
