package packet

import "net/netip"

func verifBswap(c uint16) uint16 { return c<<8 | c>>8 }

// verifOcStep: RFC 1071 incremental step. c is the checksum of the data so far in the
// library's byte order; the big-endian word hi:lo is appended.
func verifOcStep(c uint16, hi byte, lo byte) uint16 {
	prev := uint32(^verifBswap(c))
	s := prev + (uint32(hi)<<8 | uint32(lo))
	s = (s & 0xffff) + (s >> 16)
	s = (s & 0xffff) + (s >> 16)
	return verifBswap(^uint16(s))
}

// verifRefSum: straightforward RFC 1071 big-endian one's complement sum (not complemented).
func verifRefSum(b []byte) uint16 {
	var s uint32
	n := len(b)
	for i := 0; i+1 < n; i += 2 {
		s += uint32(b[i])<<8 | uint32(b[i+1])
	}
	if n&1 == 1 {
		s += uint32(b[n-1]) << 8
	}
	s = (s & 0xffff) + (s >> 16) // at most 761 words: no 32-bit overflow
	s = (s & 0xffff) + (s >> 16)
	return uint16(s)
}

// verifRefChecksum: RFC 1071 checksum in the library's byte order (low byte first).
func verifRefChecksum(b []byte) uint16 { return verifBswap(^verifRefSum(b)) }

func VerifC15Base() {
	verifAssert(Checksum([]byte{}) == 0xffff, "base")
	verifAssert(verifRefChecksum([]byte{}) == 0xffff, "base-ref")
	verifReach("done")
}

// VerifC15Step: for every even L in [lo, hi): the inductive steps
//   Checksum(b[:L+2]) == step(Checksum(b[:L]), b[L], b[L+1])   and   Checksum(b[:L+1]) == step(Checksum(b[:L]), b[L], 0)
// for arbitrary contents. Together with the base case this defines Checksum == RFC 1071 for every length < hi+2.
func VerifC15Step(lo, hi int) {
	b := verifBytes(1600)
	for L := lo; L < hi; L += 2 {
		c := Checksum(b[:L])
		verifAssertCut(Checksum(b[:L+2]) == verifOcStep(c, b[L], b[L+1]), "even-step")
		verifAssertCut(Checksum(b[:L+1]) == verifOcStep(c, b[L], 0), "odd-step")
	}
	verifReach("done")
}

// VerifC15Direct: direct equivalence with the reference implementation for one small length.
func VerifC15Direct(L int) {
	b := verifBytes(64)
	verifAssert(Checksum(b[:L]) == verifRefChecksum(b[:L]), "direct")
	verifReach("done")
}

// VerifC15RefStep: the reference implementation itself satisfies the recurrence (so the oracle of the
// induction is the textbook algorithm, not merely the recurrence).
func VerifC15RefStep(lo, hi int) {
	b := verifBytes(1600)
	for L := lo; L < hi; L += 2 {
		c := verifRefChecksum(b[:L])
		verifAssertCut(verifRefChecksum(b[:L+2]) == verifOcStep(c, b[L], b[L+1]), "ref-even-step")
		verifAssertCut(verifRefChecksum(b[:L+1]) == verifOcStep(c, b[L], 0), "ref-odd-step")
	}
	verifReach("done")
}

// VerifC15IP4Header: an IPv4 header completed by SetPayload / AppendPayload sums to 0xffff under the reference.
func VerifC15IP4Header(appendMode int) {
	buf := verifBytes(EthMaxSize)
	sb := verifBytes(4)
	db := verifBytes(4)
	src := netip.AddrFrom4([4]byte{sb[0], sb[1], sb[2], sb[3]})
	dst := netip.AddrFrom4([4]byte{db[0], db[1], db[2], db[3]})
	ttl := verifU8()
	proto := verifU8()
	n := verifInt()
	verifAssume(n >= 0 && n <= 1480)
	payload := verifBytes(1480)[:n]
	ip := EncodeIP4(buf, ttl, src, dst)
	// the header may be a reused one: whatever the checksum field holds before completion must not matter
	stale := verifBytes(2)
	ip[10], ip[11] = stale[0], stale[1]
	if appendMode == 2 { // completing a header twice (second payload replaces the first)
		ip = ip.SetPayload(verifBytes(8), verifU8())
		appendMode = 0
	}
	if appendMode != 0 {
		var err error
		ip, err = ip.AppendPayload(payload, proto)
		verifAssert(err == nil, "append-fits")
		if err != nil {
			return
		}
	} else {
		ip = ip.SetPayload(payload, proto)
	}
	verifAssertHard(verifRefSum(ip[:20]) == 0xffff, "ip4-header-sums-to-zero")
	verifAssert(ip.TotalLen() == 20+n, "ip4-totallen")
	verifReach("done")
}
