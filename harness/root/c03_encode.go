package packet

import (
	"net"
	"net/netip"
)

// ---- helpers

func verifAddr4Sym() netip.Addr {
	b := verifBytes(4)
	return netip.AddrFrom4([4]byte{b[0], b[1], b[2], b[3]})
}
func verifAddr16Sym() netip.Addr {
	b := verifBytes(16)
	var a [16]byte
	copy(a[:], b)
	return netip.AddrFrom16(a)
}

// verifPayload: symbolic-length payload (0..max) with arbitrary contents.
func verifPayload(max int) ([]byte, int) {
	n := verifInt()
	verifAssume(n >= 0 && n <= max)
	return verifBytes(max)[:n], n
}

// verifSameAt asserts out[off+k] == payload[k] at an arbitrary (Skolem) index k < n.
func verifSameAt(out []byte, off int, payload []byte, n int, id string) {
	if n == 0 {
		return
	}
	k := verifInt()
	verifAssume(k >= 0 && k < n)
	verifAssert(out[off+k] == payload[k], id)
}

func verifMACEq(a net.HardwareAddr, b []byte) bool {
	if len(a) != 6 {
		return false
	}
	for i := 0; i < 6; i++ {
		if a[i] != b[i] {
			return false
		}
	}
	return true
}

// ---- Ethernet

func VerifC03Ether() {
	c := verifInt()
	verifAssume(c >= 14 && c <= EthMaxSize)
	buf := verifBytes(EthMaxSize)[:0:c]
	src, dst := verifBytes(6), verifBytes(6)
	et := verifU16()
	e := EncodeEther(buf, et, net.HardwareAddr(src), net.HardwareAddr(dst))
	verifAssert(len(e) == 14 && e.IsValid() == nil || (et == 0x8100 || et == 0x88a8), "ether-valid")
	verifAssert(e.EtherType() == et, "ether-type")
	verifAssert(verifMACEq(e.Src(), src) && verifMACEq(e.Dst(), dst), "ether-macs")
	verifAssert(verifBE16(e, 12) == et && e[0] == dst[0] && e[5] == dst[5] && e[6] == src[0] && e[11] == src[5], "ether-ref")
	verifAssume(et != 0x8100 && et != 0x88a8) // plain (untagged) header below
	payload, n := verifPayload(1500)
	switch verifChoose(2) {
	case 0:
		if 14+n <= c {
			e2, err := e.SetPayload(payload)
			verifAssert(err == nil && len(e2) == 14+n, "ether-setpayload-len")
		}
	case 1:
		verifAssume(c >= 60) // minimum buffer for (padded) Ethernet frames
		e2, err := e.AppendPayload(payload)
		if n+14 > c {
			verifAssert(err == ErrPayloadTooBig, "ether-append-toobig")
			return
		}
		verifAssert(err == nil, "ether-append-ok")
		if err == nil {
			want := 14 + n
			if want < 60 {
				want = 60
			}
			verifAssert(len(e2) == want, "ether-append-len")
			verifSameAt(e2, 14, payload, n, "ether-append-bytes")
			verifAssert(e2.EtherType() == et && verifMACEq(e2.Src(), src), "ether-append-header-kept")
		}
	}
	verifReach("done")
}

// ---- IPv4

func VerifC03IP4() {
	c := verifInt()
	verifAssume(c >= 20 && c <= EthMaxSize)
	buf := verifBytes(EthMaxSize)[:c:c]
	src, dst := verifAddr4Sym(), verifAddr4Sym()
	ttl, proto := verifU8(), verifU8()
	ip := EncodeIP4(buf, ttl, src, dst)
	verifAssert(ip.IsValid() == nil && len(ip) == 20, "ip4-valid")
	verifAssert(ip.Src() == src && ip.Dst() == dst && ip.TTL() == int(ttl) && ip.Version() == 4 && ip.IHL() == 20 && ip.TotalLen() == 20, "ip4-getters")
	verifAssert(buf[0] == 0x45 && buf[8] == ttl && verifAddr4(buf, 12) == src && verifAddr4(buf, 16) == dst && verifBE16(buf, 2) == 20, "ip4-ref")
	payload, n := verifPayload(1480)
	switch verifChoose(2) {
	case 0:
		verifAssume(20+n <= c)
		ip2 := ip.SetPayload(payload, proto)
		verifAssert(len(ip2) == 20+n && ip2.TotalLen() == 20+n && ip2.Protocol() == proto && ip2.IsValid() == nil, "ip4-setpayload")
		verifAssert(ip2.Src() == src && ip2.Dst() == dst, "ip4-setpayload-addrs")
	case 1:
		ip2, err := ip.AppendPayload(payload, proto)
		verifAssert((err != nil) == (n > c-20), "ip4-append-toobig-iff")
		if err != nil {
			verifAssert(err == ErrPayloadTooBig, "ip4-append-err")
			return
		}
		verifAssert(len(ip2) == 20+n && ip2.TotalLen() == 20+n && ip2.Protocol() == proto && ip2.IsValid() == nil, "ip4-append")
		verifSameAt(ip2, 20, payload, n, "ip4-append-bytes")
		verifAssert(len(ip2.Payload()) == n, "ip4-append-payload-len")
	}
	verifReach("done")
}

// ---- IPv6

func VerifC03IP6() {
	c := verifInt()
	verifAssume(c >= 40 && c <= EthMaxSize)
	buf := verifBytes(EthMaxSize)[:c:c]
	src, dst := verifAddr16Sym(), verifAddr16Sym()
	hop, nh := verifU8(), verifU8()
	ip := EncodeIP6(buf, hop, src, dst)
	verifAssert(len(ip) == 40 && ip.IsValid() == nil, "ip6-valid")
	verifAssert(ip.Src() == src && ip.Dst() == dst && ip.HopLimit() == hop && ip.Version() == 6 && ip.PayloadLen() == 0, "ip6-getters")
	verifAssert(buf[0]>>4 == 6 && buf[7] == hop && verifAddr16(buf, 8) == src && verifAddr16(buf, 24) == dst, "ip6-ref")
	// the buffer is a reused one (arbitrary old contents): the fields the caller cannot supply (traffic class, flow
	// label) must be written too, so that the header decodes to the supplied values only
	verifAssert(buf[0] == 0x60 && buf[1] == 0 && buf[2] == 0 && buf[3] == 0, "ip6-header-fully-written-on-reused-buffer")
	payload, n := verifPayload(1460)
	switch verifChoose(2) {
	case 0:
		verifAssume(40+n <= c)
		ip2 := ip.SetPayload(payload, nh)
		verifAssert(len(ip2) == 40+n && int(ip2.PayloadLen()) == n && ip2.NextHeader() == nh && ip2.IsValid() == nil, "ip6-setpayload")
	case 1:
		ip2, err := ip.AppendPayload(payload, nh)
		verifAssert((err != nil) == (n > c-40), "ip6-append-toobig-iff")
		if err != nil {
			verifAssert(err == ErrPayloadTooBig, "ip6-append-err")
			return
		}
		verifAssert(len(ip2) == 40+n && int(ip2.PayloadLen()) == n && ip2.NextHeader() == nh && ip2.IsValid() == nil, "ip6-append")
		verifSameAt(ip2, 40, payload, n, "ip6-append-bytes")
	}
	verifReach("done")
}

// ---- UDP

func VerifC03UDP() {
	c := verifInt()
	verifAssume(c >= 8 && c <= EthMaxSize)
	buf := verifBytes(EthMaxSize)[:0:c]
	sp, dp := verifU16(), verifU16()
	u := EncodeUDP(buf, sp, dp)
	verifAssert(len(u) == 8 && u.IsValid() == nil && u.SrcPort() == sp && u.DstPort() == dp, "udp-getters")
	verifAssert(verifBE16(u, 0) == sp && verifBE16(u, 2) == dp, "udp-ref")
	payload, n := verifPayload(1472)
	switch verifChoose(2) {
	case 0:
		verifAssume(8+n <= c)
		u2 := u.SetPayload(payload)
		verifAssert(len(u2) == 8+n && int(u2.Len()) == 8+n && u2.SrcPort() == sp && u2.DstPort() == dp, "udp-setpayload")
	case 1:
		u2, err := u.AppendPayload(payload)
		verifAssert((err != nil) == (n > c-8), "udp-append-toobig-iff")
		if err != nil {
			verifAssert(err == ErrPayloadTooBig, "udp-append-err")
			return
		}
		verifAssert(len(u2) == 8+n && int(u2.Len()) == 8+n && u2.SrcPort() == sp && u2.DstPort() == dp, "udp-append")
		verifSameAt(u2, 8, payload, n, "udp-append-bytes")
		verifAssert(len(u2.Payload()) == n, "udp-append-payload-len")
	}
	verifReach("done")
}

// ---- ARP

func VerifC03ARP() {
	buf := verifBytes(64)[:0]
	op := verifU16()
	sm, dm := verifBytes(6), verifBytes(6)
	sip, dip := verifAddr4Sym(), verifAddr4Sym()
	a := EncodeARP(buf, op, Addr{MAC: net.HardwareAddr(sm), IP: sip}, Addr{MAC: net.HardwareAddr(dm), IP: dip})
	verifAssert(len(a) == 28 && a.IsValid() == nil, "arp-valid")
	verifAssert(a.Operation() == op && a.SrcIP() == sip && a.DstIP() == dip && verifMACEq(a.SrcMAC(), sm) && verifMACEq(a.DstMAC(), dm), "arp-getters")
	verifAssert(verifBE16(a, 0) == 1 && verifBE16(a, 2) == 0x0800 && a[4] == 6 && a[5] == 4 && verifBE16(a, 6) == op &&
		verifAddr4(a, 14) == sip && verifAddr4(a, 24) == dip && a[8] == sm[0] && a[13] == sm[5] && a[18] == dm[0] && a[23] == dm[5], "arp-ref")
	verifReach("done")
}

// ---- ICMP echo

func VerifC03ICMPEcho() {
	c := verifInt()
	verifAssume(c >= 8 && c <= EthMaxSize)
	buf := verifBytes(EthMaxSize)[:0:c]
	t, code := verifU8(), verifU8()
	id, seq := verifU16(), verifU16()
	data, n := verifPayload(1400)
	e := EncodeICMPEcho(buf, t, code, id, seq, data)
	if 8+n > c {
		verifAssert(e == nil, "echo-too-big-nil")
		return
	}
	verifAssert(len(e) == 8+n && e.IsValid() == nil, "echo-valid")
	verifAssert(e.Type() == t && e.Code() == code && e.EchoID() == id && e.EchoSeq() == seq, "echo-getters")
	verifAssert(e[0] == t && e[1] == code && verifBE16(e, 4) == id && verifBE16(e, 6) == seq, "echo-ref")
	verifSameAt(e, 8, data, n, "echo-data")
	verifAssert(len(e.EchoData()) == n, "echo-data-len")
	verifReach("done")
}

// ---- NDP neighbour advertisement / solicitation

func VerifC03NDP() {
	mac := verifBytes(6)
	ip := verifAddr16Sym()
	switch verifChoose(2) {
	case 0:
		r, s, o := verifBool(), verifBool(), verifBool()
		b := ICMP6NeighborAdvertisementMarshal(r, s, o, Addr{MAC: net.HardwareAddr(mac), IP: ip})
		na := ICMP6NeighborAdvertisement(b)
		verifAssert(na.IsValid() == nil && na.Type() == 136 && na.Code() == 0, "na-valid")
		verifAssert(na.Router() == r && na.Solicited() == s && na.Override() == o, "na-flags")
		verifAssert(na.TargetAddress() == ip, "na-target")
		verifAssert(verifMACEq(na.TargetLLA(), mac), "na-target-lla")
		verifAssert(len(b) == 32 && b[0] == 136 && (b[4]&0x80 != 0) == r && (b[4]&0x40 != 0) == s && (b[4]&0x20 != 0) == o && b[4]&0x1f == 0 &&
			verifAddr16(b, 8) == ip && b[24] == 2 && b[25] == 1 && b[26] == mac[0] && b[31] == mac[5], "na-ref")
	case 1:
		b, err := ICMP6NeighborSolicitationMarshal(ip, net.HardwareAddr(mac))
		verifAssert(err == nil, "ns-err")
		ns := ICMP6NeighborSolicitation(b)
		verifAssert(ns.IsValid() == nil && ns.Type() == 135 && ns.Code() == 0, "ns-valid")
		verifAssert(ns.TargetAddress() == ip, "ns-target")
		verifAssert(verifMACEq(ns.SourceLLA(), mac), "ns-source-lla")
		verifAssert(len(b) == 32 && b[0] == 135 && verifAddr16(b, 8) == ip && b[24] == 1 && b[25] == 1 && b[26] == mac[0] && b[31] == mac[5], "ns-ref")
	}
	verifReach("done")
}

// ---- DNS query

func VerifC03DNSQuery() {
	id, flags, qt := verifU16(), verifU16(), verifU16()
	n := verifChoose(9)
	name := verifBytes(8)[:n]
	q := EncodeDNSQuery(id, flags, name, qt)
	verifAssert(len(q) == 16+n && q.IsValid() == nil, "dnsq-valid")
	verifAssert(q.TransactionID() == id && q.QDCount() == 1 && q.ANCount() == 0 && q.NSCount() == 0 && q.ARCount() == 0, "dnsq-getters")
	verifAssert(verifBE16(q, 2) == flags && verifBE16(q, 12+n) == qt && verifBE16(q, 14+n) == 1, "dnsq-ref")
	verifSameAt(q, 12, name, n, "dnsq-name")
	verifReach("done")
}

// ---- composed Ether/IP/UDP frame is classified by Parse as the protocol that was encoded

func VerifC03Compose(v6 int) {
	buf := verifBytes(EthMaxSize)[:0]
	src, dst := verifBytes(6), verifBytes(6)
	verifAssume(src[0]&1 == 0)
	sp, dp := verifU16(), verifU16()
	payload, n := verifPayload(64)
	var frame Ether
	if v6 == 0 {
		e := EncodeEther(buf, 0x0800, net.HardwareAddr(src), net.HardwareAddr(dst))
		ip := EncodeIP4(e.Payload(), 64, verifAddr4Sym(), verifAddr4Sym())
		u := EncodeUDP(ip.Payload(), sp, dp)
		u, err := u.AppendPayload(payload)
		verifAssert(err == nil, "compose-udp")
		ip = ip.SetPayload(u, 17)
		frame, err = e.SetPayload(ip)
		verifAssert(err == nil && len(frame) == 14+20+8+n, "compose4-len")
	} else {
		e := EncodeEther(buf, 0x86dd, net.HardwareAddr(src), net.HardwareAddr(dst))
		ip := EncodeIP6(e.Payload(), 64, verifAddr16Sym(), verifAddr16Sym())
		u := EncodeUDP(ip.Payload(), sp, dp)
		u, err := u.AppendPayload(payload)
		verifAssert(err == nil, "compose-udp")
		ip = ip.SetPayload(u, 17)
		frame, err = e.SetPayload(ip)
		verifAssert(err == nil && len(frame) == 14+40+8+n, "compose6-len")
	}
	s := verifSession(false)
	f, err := s.Parse(frame)
	verifAssert(err == nil, "compose-parse")
	if err != nil {
		return
	}
	want := verifUDPClass(sp, dp)
	if want == 0 {
		want = int(PayloadUDP)
	}
	verifAssert(int(f.PayloadID) == want, "compose-class")
	verifAssert(f.SrcAddr.Port == sp && f.DstAddr.Port == dp, "compose-ports")
	if want != int(PayloadUDP) {
		verifAssert(len(f.Payload()) == n, "compose-payload-len")
		verifSameAt(f.Payload(), 0, payload, n, "compose-payload-bytes")
	}
	verifReach("done")
}

// ---- DHCPv4: arbitrary options (<= maxOpts entries of <= 4 bytes) and requested-parameter order (<= maxOrder codes)

// verifDHCPFind scans the options area like an independent decoder: returns the position of the first
// occurrence of code (or -1) and whether the area is well formed up to an End option.
func verifDHCPFind(o []byte, code byte) (pos int, wellFormed bool) {
	pos = -1
	i := 0
	for i < len(o) {
		c := o[i]
		if c == 255 {
			return pos, true
		}
		if c == 0 {
			i++
			continue
		}
		if i+1 >= len(o) {
			return pos, false
		}
		l := int(o[i+1])
		if i+2+l > len(o) {
			return pos, false
		}
		if c == code && pos < 0 {
			pos = i
		}
		i += 2 + l
	}
	return pos, false
}

// fixed != 0: the option set is exactly {subnet mask (1), router (3)} with arbitrary values, only the order list varies.
func VerifC03DHCP4(maxOpts, maxOrder, fixed int) {
	buf := verifBytes(400)[:0:400]
	op := verifU8()
	verifAssume(op == 1 || op == 2)
	mt := verifU8()
	ch := verifBytes(6)
	xid := verifBytes(4)
	ci, yi := verifAddr4Sym(), verifAddr4Sym()
	bc := verifBool()
	k := verifChoose(maxOpts + 1)
	if fixed != 0 {
		k = 2
	}
	options := DHCP4Options{}
	var codes [3]byte
	var vals [3][]byte
	for i := 0; i < k; i++ {
		codes[i] = verifU8()
		if fixed != 0 {
			verifAssume(codes[i] == byte(1+2*i))
		}
		verifAssume(codes[i] != 0 && codes[i] != 255 && codes[i] != 53)
		for j := 0; j < i; j++ {
			verifAssume(codes[i] != codes[j])
		}
		vals[i] = verifBytes(4)[:verifChoose(5)]
		options[DHCP4OptionCode(codes[i])] = vals[i]
	}
	m := verifChoose(maxOrder + 1)
	order := make([]byte, m)
	for i := range order {
		order[i] = verifU8()
	}
	p := EncodeDHCP4(buf, DHCP4OpCode(op), DHCP4MessageType(mt), net.HardwareAddr(ch), ci, yi, xid, bc, options, order)
	verifAssert(p != nil && len(p) >= 300, "dhcp-minlen")
	if p == nil {
		return
	}
	verifAssert(p.IsValid() == nil, "dhcp-valid")
	verifAssert(byte(p.OpCode()) == op && p.HType() == 1 && p.HLen() == 6 && p.CIAddr() == ci && p.YIAddr() == yi && p.Broadcast() == bc, "dhcp-getters")
	verifAssert(verifMACEq(p.CHAddr(), ch) && p.XId()[0] == xid[0] && p.XId()[3] == xid[3], "dhcp-chaddr-xid")
	verifAssert(p[0] == op && p[236] == 99 && p[237] == 130 && p[238] == 83 && p[239] == 99 && verifAddr4(p, 12) == ci && verifAddr4(p, 16) == yi && (p[10]&0x80 != 0) == bc, "dhcp-ref")
	area := []byte(p[240:])
	pos53, wf := verifDHCPFind(area, 53)
	verifAssert(wf, "dhcp-options-wellformed-with-end")
	verifAssert(pos53 >= 0 && area[pos53+1] == 1 && area[pos53+2] == mt, "dhcp-message-type")
	opts := p.ParseOptions()
	for i := 0; i < k; i++ {
		pos, _ := verifDHCPFind(area, codes[i])
		verifAssert(pos >= 0 && int(area[pos+1]) == len(vals[i]), "dhcp-option-present")
		if pos >= 0 && len(vals[i]) > 0 {
			verifAssert(area[pos+2] == vals[i][0] && area[pos+1+len(vals[i])] == vals[i][len(vals[i])-1], "dhcp-option-value")
		}
		got, ok := opts[DHCP4OptionCode(codes[i])]
		verifAssert(ok && len(got) == len(vals[i]), "dhcp-option-parsed")
	}
	// subnet mask (1) must precede router (3) whenever both are supplied
	pm, _ := verifDHCPFind(area, 1)
	pr, _ := verifDHCPFind(area, 3)
	if pm >= 0 && pr >= 0 {
		verifAssert(pm < pr, "dhcp-mask-before-router")
	}
	verifReach("done")
}
