package dhcp4_spoofer

import (
	"net"
	"net/netip"
	"time"

	"github.com/irai/packet"
)

func verifMACDiff(a, b []byte) byte {
	return (a[0] ^ b[0]) | (a[1] ^ b[1]) | (a[2] ^ b[2]) | (a[3] ^ b[3]) | (a[4] ^ b[4]) | (a[5] ^ b[5])
}
func verifBytesDiff(a, b []byte) byte {
	var d byte
	for i := range a {
		d |= a[i] ^ b[i]
	}
	return d
}
func verifBE16(b []byte, i int) uint16 { return uint16(b[i])<<8 | uint16(b[i+1]) }
func verifAddr4(b []byte, i int) netip.Addr {
	return netip.AddrFrom4([4]byte{b[i], b[i+1], b[i+2], b[i+3]})
}
func verifIP(last byte) netip.Addr { return netip.AddrFrom4([4]byte{192, 168, 0, last}) }

const verifNowNS = int64(1) << 59

var (
	verifHostIP   = verifIP(9)
	verifRouterIP = verifIP(1)
	verifDNS      = verifIP(1)
	// prefix configuration (verifNetConfig): home /28 + netfilter /29 by default
	verifHomeBits, verifNFBits = 28, 29
	verifSample                = byte(15) // lease / squatter addresses are drawn from 192.168.0.(x & verifSample)
)

// verifNetConfig selects the home / netfilter prefix configuration.
//   0: home 192.168.0.0/28, host .9, netfilter 192.168.0.8/29
//   1: home 192.168.0.0/27, host .17, netfilter 192.168.0.16/28
//   2: home 192.168.0.0/28, host .2, netfilter 192.168.0.0/30 (netfilter subnet at the start of the home LAN, router inside it)
func verifNetConfig(cfg int) {
	switch cfg {
	case 1:
		verifHostIP, verifHomeBits, verifNFBits, verifSample = verifIP(17), 27, 28, 31
	case 2:
		verifHostIP, verifHomeBits, verifNFBits, verifSample = verifIP(2), 28, 30, 15
	}
}

func verifMaskByte(bits int) byte { return byte(0xff << uint(32-bits)) }

// Deliberately small address pools: home LAN 192.168.0.0/28 (router .1, host .9), netfilter LAN 192.168.0.8/29
// with our host as gateway, so that cursor wrap-around and exhaustion are inside the bound.
func verifDHCPSetup(mode Mode) (*Handler, *packet.Session, *verifConn, []byte) {
	hostMAC, routerMAC := verifBytes(6), verifBytes(6)
	verifAssume(hostMAC[0]&1 == 0 && routerMAC[0]&1 == 0 && verifMACDiff(hostMAC, routerMAC) != 0)
	nic := &packet.NICInfo{
		HomeLAN4:    netip.PrefixFrom(verifIP(0), verifHomeBits),
		HostAddr4:   packet.Addr{MAC: net.HardwareAddr(hostMAC), IP: verifHostIP},
		RouterAddr4: packet.Addr{MAC: net.HardwareAddr(routerMAC), IP: verifRouterIP},
	}
	conn := &verifConn{}
	s, err := packet.Config{Conn: conn, NICInfo: nic}.NewSession("")
	verifAssert(err == nil, "session-created")
	verifDropGoroutines()
	h, err := Config{Mode: mode, NetfilterIP: netip.PrefixFrom(verifHostIP, verifNFBits), DNSServer: verifDNS, LeaseFilename: ""}.New(s)
	verifAssert(err == nil && h != nil, "handler-created")
	nextAttack = verifTime(int64(1)<<61 - 1) // the DHCP-server attack burst is not part of this property
	verifClockRange(verifNowNS, verifNowNS+int64(10*time.Second))
	return h, s, conn, hostMAC
}

type verifLeaseRec struct {
	l      *Lease
	cid    []byte
	mac    []byte
	state  State
	ip     netip.Addr
	offer  netip.Addr
	xid    []byte
	net2   bool
	expired bool
}

func verifReserved(h *Handler, sub *dhcpSubnet, ip netip.Addr) bool {
	return ip == verifHostIP || ip == verifRouterIP || ip == sub.LAN.Addr() || ip == sub.broadcast || !sub.LAN.Contains(ip)
}

// verifLeases installs k arbitrary leases satisfying the lease-table invariant InvD.
func verifLeases(h *Handler, k int, sel int) []verifLeaseRec {
	var recs []verifLeaseRec
	for i := 0; i < k; i++ {
		pick := sel % 6 // (state, subnet) of this lease: job-level split
		sel /= 6
		cid := verifBytes(7)
		mac := verifBytes(6)
		verifAssume(mac[0]&1 == 0)
		for _, r := range recs {
			verifAssume(verifBytesDiff(cid, r.cid) != 0)
		}
		l := &Lease{ClientID: cid, Addr: packet.Addr{MAC: net.HardwareAddr(mac)}}
		r := verifLeaseRec{l: l, cid: cid, mac: mac}
		r.net2 = pick >= 3
		l.subnet = h.net1
		if r.net2 {
			l.subnet = h.net2
		}
		switch pick % 3 {
		case 0:
			l.State = StateFree
		case 1:
			l.State = StateDiscover
			l.IPOffer = verifIP(verifU8() & verifSample)
			verifAssume(!verifReserved(h, l.subnet, l.IPOffer))
			l.XID = verifBytes(4)
			r.offer, r.xid = l.IPOffer, l.XID
		case 2:
			l.State = StateAllocated
			l.Addr.IP = verifIP(verifU8() & verifSample)
			verifAssume(!verifReserved(h, l.subnet, l.Addr.IP))
			for _, o := range recs {
				if o.state == StateAllocated {
					verifAssume(o.ip != l.Addr.IP)
				}
			}
			r.expired = verifBool()
			if r.expired {
				l.DHCPExpiry = verifTime(verifNowNS - int64(time.Hour))
			} else {
				l.DHCPExpiry = verifTime(int64(1)<<61 - 2)
			}
		}
		r.state, r.ip = l.State, l.Addr.IP
		h.table[string(cid)] = l
		recs = append(recs, r)
	}
	return recs
}

// ---- request frame: Ethernet/IPv4/UDP(68->67)/DHCP with a fixed option layout per variant and symbolic values
//
// variant: 0 DISCOVER+requested ip+parameter list, 1 DISCOVER, 2 REQUEST selecting (requested ip + server id),
// 3 REQUEST renew/rebind (ciaddr), 4 REQUEST reboot (requested ip), 5 DECLINE, 6 RELEASE

type verifReq struct {
	frame  []byte
	dhcp   []byte
	mtype  byte
	cid    []byte
	chaddr []byte
	xid    []byte
	reqIP  netip.Addr
	hasReq bool
	server netip.Addr
	hasSrv bool
	prl    []byte
	srcIP  netip.Addr
}

func verifRequestFrame(variant int) verifReq {
	opts := []byte{53, 1, 0, 61, 7, 0, 0, 0, 0, 0, 0, 0}
	mt := []byte{1, 1, 3, 3, 3, 4, 7}[variant]
	opts[2] = mt
	var r verifReq
	r.mtype = mt
	reqAt, srvAt, prlAt := -1, -1, -1
	if variant == 0 || variant == 2 || variant == 4 || variant == 5 {
		reqAt = len(opts) + 2
		opts = append(opts, 50, 4, 0, 0, 0, 0)
	}
	if variant == 2 || variant == 5 || variant == 6 {
		srvAt = len(opts) + 2
		opts = append(opts, 54, 4, 0, 0, 0, 0)
	}
	if variant == 0 || variant == 2 {
		prlAt = len(opts) + 2
		opts = append(opts, 55, 2, 0, 0)
	}
	opts = append(opts, 255)
	for len(opts) < 60 { // BOOTP minimum: clients pad the message to 300 bytes (the reply is built in the request buffer)
		opts = append(opts, 0)
	}
	n := 14 + 20 + 8 + 240 + len(opts)
	b := verifBytes(n)
	// Ethernet + IPv4 + UDP headers: structural bytes are written (concrete), everything else stays symbolic
	verifAssume(b[6]&1 == 0)
	b[12], b[13], b[14] = 0x08, 0x00, 0x45
	tl := n - 14
	b[16], b[17], b[14+9] = byte(tl>>8), byte(tl), 17
	u := 34
	b[u], b[u+1], b[u+2], b[u+3] = 0, 68, 0, 67
	d := b[42:]
	d[0], d[1], d[2] = 1, 1, 6 // BOOTREQUEST, ethernet, hlen 6
	d[236], d[237], d[238], d[239] = 99, 130, 83, 99
	// options: fixed codes/lengths, symbolic values
	for i, c := range opts {
		isValue := (i >= 5 && i < 12) || (reqAt >= 0 && i >= reqAt && i < reqAt+4) || (srvAt >= 0 && i >= srvAt && i < srvAt+4) || (prlAt >= 0 && i >= prlAt && i < prlAt+2)
		if !isValue {
			d[240+i] = c
		}
	}
	if prlAt >= 0 { // parameter request list: router before mask (the order that matters), or mask before router
		if verifChoose(2) == 0 {
			d[240+prlAt], d[240+prlAt+1] = 3, 1
		} else {
			d[240+prlAt], d[240+prlAt+1] = 1, 6
		}
	}
	if reqAt >= 0 { // requested address: any address of 192.168.0.0/24 (covers both subnets, reserved and off-subnet ones) or a foreign one
		if verifChoose(2) == 0 {
			d[240+reqAt], d[240+reqAt+1], d[240+reqAt+2] = 192, 168, 0
		} else {
			d[240+reqAt], d[240+reqAt+1], d[240+reqAt+2], d[240+reqAt+3] = 8, 8, 8, 8
		}
	}
	if srvAt >= 0 { // server identifier: ours, the router's, or another address of the LAN
		switch verifChoose(3) {
		case 0:
			our := verifHostIP.As4()
			d[240+srvAt], d[240+srvAt+1], d[240+srvAt+2], d[240+srvAt+3] = our[0], our[1], our[2], our[3]
		case 1:
			d[240+srvAt], d[240+srvAt+1], d[240+srvAt+2], d[240+srvAt+3] = 192, 168, 0, 1
		default:
			d[240+srvAt], d[240+srvAt+1], d[240+srvAt+2] = 192, 168, 0
		}
	}
	r.frame, r.dhcp = b, d
	// the handler builds its reply inside the request buffer: keep private copies of the request fields
	cp := func(x []byte) []byte { c := make([]byte, len(x)); copy(c, x); return c }
	r.cid = cp(d[240+5 : 240+12])
	r.chaddr = cp(d[28:34])
	verifAssume(r.chaddr[0]&1 == 0)
	r.xid = cp(d[4:8])
	if reqAt >= 0 {
		r.hasReq, r.reqIP = true, verifAddr4(d, 240+reqAt)
	}
	if srvAt >= 0 {
		r.hasSrv, r.server = true, verifAddr4(d, 240+srvAt)
	}
	if prlAt >= 0 {
		r.prl = d[240+prlAt : 240+prlAt+2]
	}
	r.srcIP = verifAddr4(b, 14+12)
	return r
}

// ---- reply decoding (independent scan of the options area)

type verifReply struct {
	ok     bool
	mtype  byte
	yiaddr netip.Addr
	d      []byte
	f      []byte
}

func verifOpt(o []byte, code byte) (pos int) {
	i := 0
	for i < len(o) {
		c := o[i]
		if c == 255 {
			return -1
		}
		if c == 0 {
			i++
			continue
		}
		if i+1 >= len(o) || i+2+int(o[i+1]) > len(o) {
			return -1
		}
		if c == code {
			return i
		}
		i += 2 + int(o[i+1])
	}
	return -1
}

func verifDecodeReply(f []byte, hostMAC []byte) (r verifReply) {
	verifAssert(len(f) >= 14+20+8+240+4, "C07:dhcp-reply:complete-frame")
	if len(f) < 286 {
		return
	}
	verifAssert(verifMACDiff(f[6:12], hostMAC) == 0, "C07:dhcp-reply:ethernet-source-is-host-nic-mac")
	verifAssert(verifBE16(f, 12) == 0x0800 && f[14] == 0x45 && int(verifBE16(f, 16)) == len(f)-14 && f[14+9] == 17, "C07:dhcp-reply:ipv4-header-consistent")
	verifAssert(verifBE16(f, 34) == 67 && verifBE16(f, 36) == 68 && int(verifBE16(f, 38)) == len(f)-34, "C07:dhcp-reply:udp-header-consistent")
	verifAssert(verifAddr4(f, 14+12) == verifHostIP, "C07:dhcp-reply:ip-source-is-our-address")
	d := f[42:]
	verifAssert(d[0] == 2 && d[236] == 99 && d[237] == 130 && d[238] == 83 && d[239] == 99, "C07:dhcp-reply:bootreply-with-cookie")
	p := verifOpt(d[240:], 53)
	verifAssert(p >= 0 && d[240+p+1] == 1, "C07:dhcp-reply:has-message-type")
	if p < 0 {
		return
	}
	r.ok, r.mtype, r.yiaddr, r.d, r.f = true, d[240+p+2], verifAddr4(d, 16), d, f
	return
}

// VerifC11Step: one client message processed by the real handler from an arbitrary invariant lease table.
// mode: 1 primary, 2 secondary, 3 nice.  variant: see verifRequestFrame.  nleases: size of the pre-state table.
func VerifC11Step(mode int, variant int, nleases int) { verifC11Step(mode, variant, nleases) }

// VerifC11StepCfg: the same step under another home / netfilter prefix configuration (see verifNetConfig).
func VerifC11StepCfg(mode int, variant int, nleases int, cfg int) {
	verifNetConfig(cfg)
	verifC11Step(mode, variant, nleases)
}

func verifC11Step(mode int, variant int, nleases int) {
	h, s, conn, hostMAC := verifDHCPSetup(Mode(mode))
	nsel := 4
	for i := 0; i < nleases; i++ {
		nsel *= 6
	}
	sel := verifSplit(nsel)
	recs := verifLeases(h, nleases, sel/4)
	req := verifRequestFrame(variant)
	// a DHCP client: its frames are sourced from its own hardware address, which is neither ours nor the router's
	verifAssume(verifMACDiff(req.frame[6:12], req.chaddr) == 0)
	verifAssume(verifMACDiff(req.chaddr, hostMAC) != 0 && verifMACDiff(req.chaddr, s.NICInfo.RouterAddr4.MAC) != 0)
	verifAssume(req.srcIP != verifHostIP && req.srcIP != verifRouterIP)
	if sel&1 == 1 {
		s.Capture(net.HardwareAddr(req.chaddr))
	}
	// an address the session tracks for some other MAC
	otherMAC := verifBytes(6)
	otherIP := verifIP(verifU8() & verifSample)
	trackOther := sel&2 == 2
	if trackOther {
		verifAssume(otherMAC[0]&1 == 0 && verifMACDiff(otherMAC, hostMAC) != 0 && otherIP != verifHostIP && otherIP != verifRouterIP)
		// an address conflict between a valid lease and a squatting device is outside the claim: the server stays
		// authoritative for its own valid leases
		for _, r := range recs {
			if r.state == StateAllocated && !r.expired {
				verifAssume(r.ip != otherIP)
			}
		}
		s.DHCPv4Update(net.HardwareAddr(otherMAC), otherIP, packet.NameEntry{})
	}
	verifTagInput(req.frame) // C10: leases and session entries must not point into the request buffer
	frame, err := s.Parse(req.frame)
	if err != nil || frame.PayloadID != packet.PayloadDHCP4 {
		return
	}
	// session facts as the handler sees them (Parse may have re-bound addresses)
	captured := s.IsCaptured(net.HardwareAddr(req.chaddr))
	if trackOther {
		o := s.FindIP(otherIP)
		trackOther = o != nil && verifMACDiff(o.MACEntry.MAC, otherMAC) == 0
	}
	before := len(conn.frames)
	h.ProcessPacket(frame)
	verifDropGoroutines() // forced decline / release frames towards the real server are not replies to the client
	sent := conn.frames[before:]
	verifReach("processed")
	verifNoInputAlias(h.table, "C10:dhcp-lease-table-retains-packet-buffer")
	verifNoInputAlias(s, "C10:session-retains-dhcp-packet-buffer")
	sub := h.net1
	if captured {
		sub = h.net2
	}
	// the client's pre-state lease, if any
	var mine *verifLeaseRec
	for i := range recs {
		if verifBytesDiff(recs[i].cid, req.cid) == 0 {
			mine = &recs[i]
		}
	}
	for _, f := range sent {
		if len(f) >= 42 && verifBE16(f, 36) != 68 {
			continue // client-role packets (decline / release / discover towards the real server)
		}
		r := verifDecodeReply(f, hostMAC)
		if !r.ok {
			continue
		}
		verifAssert(r.d[4] == req.xid[0] && r.d[5] == req.xid[1] && r.d[6] == req.xid[2] && r.d[7] == req.xid[3], "C12:reply-echoes-xid")
		verifAssert(verifMACDiff(r.d[28:34], req.chaddr) == 0, "C12:reply-echoes-chaddr")
		if r.mtype == 6 { // NAK
			verifAssert(r.yiaddr == packet.IPv4zero, "C12:nak-has-no-address")
			continue
		}
		verifAssert(r.mtype == 2 || r.mtype == 5, "C12:reply-is-offer-ack-or-nak")
		if req.mtype == 1 {
			verifAssert(r.mtype == 2, "C12:discover-answered-by-offer")
		} else {
			verifAssert(r.mtype == 5 && req.mtype == 3, "C12:only-request-is-acknowledged")
		}
		y := r.yiaddr
		// ---- C11: never a reserved / foreign / doubly leased address
		verifAssert(y != verifHostIP, "C11:never-our-own-address")
		verifAssert(y != verifRouterIP, "C11:never-the-router-address")
		verifAssert(sub.LAN.Contains(y), "C11:address-inside-the-clients-subnet")
		verifAssert(sub.LAN.Contains(y), "C12:address-inside-the-subnet-of-the-capture-state") // the same fact is part of both statements
		verifAssert(y != sub.LAN.Addr() && y != sub.broadcast, "C11:never-network-or-broadcast-address")
		for _, o := range recs {
			if o.state == StateAllocated && !o.expired && verifBytesDiff(o.cid, req.cid) != 0 {
				verifAssert(o.ip != y, "C11:address-acknowledged-to-another-client-not-handed-out")
			}
		}
		if trackOther && verifMACDiff(otherMAC, req.chaddr) != 0 {
			verifAssert(y != otherIP, "C11:address-tracked-for-a-different-mac-not-handed-out")
		}
		// ---- C12: subnet segregation and option contents
		o := r.d[240:]
		p54, p1, p3, p6, p51 := verifOpt(o, 54), verifOpt(o, 1), verifOpt(o, 3), verifOpt(o, 6), verifOpt(o, 51)
		verifAssert(p54 >= 0 && o[p54+1] == 4 && verifAddr4(o, p54+2) == verifHostIP, "C12:server-identifier-is-our-address")
		mask := verifMaskByte(verifHomeBits)
		gw, dns := verifRouterIP, verifDNS
		if captured {
			mask, gw, dns = verifMaskByte(verifNFBits), verifHostIP, packet.DNSv4CloudFlareFamily1
		}
		verifAssert(p1 >= 0 && o[p1+1] == 4 && o[p1+2] == 255 && o[p1+3] == 255 && o[p1+4] == 255 && o[p1+5] == mask, "C12:subnet-mask-of-the-capture-state")
		verifAssert(p3 >= 0 && o[p3+1] == 4 && verifAddr4(o, p3+2) == gw, "C12:router-of-the-capture-state")
		verifAssert(p6 >= 0 && o[p6+1] == 4 && verifAddr4(o, p6+2) == dns, "C12:dns-of-the-capture-state")
		verifAssert(p1 >= 0 && p3 >= 0 && p1 < p3, "C12:mask-precedes-router")
		verifAssert(p51 >= 0 && o[p51+1] == 4 && uint32(o[p51+2])<<24|uint32(o[p51+3])<<16|uint32(o[p51+4])<<8|uint32(o[p51+5]) == uint32(sub.Duration/time.Second), "C12:lease-time")
		if r.mtype == 5 {
			// an ACK confirms the address offered in this transaction or the client's current lease
			okOffer := mine != nil && mine.state == StateDiscover && mine.offer == y && verifBytesDiff(mine.xid, req.xid) == 0
			okLease := mine != nil && mine.state == StateAllocated && mine.ip == y && !mine.expired
			verifAssert(okOffer || okLease, "C12:ack-confirms-offer-of-this-transaction-or-current-lease")
			verifAssert(mine == nil || verifMACDiff(mine.mac, req.chaddr) == 0, "C12:ack-only-for-the-leases-hardware-address")
			if req.hasSrv && req.server != verifHostIP {
				verifAssert(false, "C12:request-selecting-another-server-never-acked")
			}
		}
	}
	// lease-table invariant after the step (C11 induction)
	for k1, a := range h.table {
		verifAssert(verifBytesDiff([]byte(k1), a.ClientID) == 0 || len(k1) != len(a.ClientID), "C11:table-keyed-by-client-id")
		if a.State != StateAllocated {
			continue
		}
		verifAssert(!verifReserved(h, a.subnet, a.Addr.IP), "C11:allocated-lease-has-a-usable-address")
		for k2, b := range h.table {
			if k1 != k2 && b.State == StateAllocated && !b.DHCPExpiry.Before(verifTime(verifNowNS)) && !a.DHCPExpiry.Before(verifTime(verifNowNS)) {
				verifAssert(a.Addr.IP != b.Addr.IP, "C11:one-address-acknowledged-to-two-clients")
			}
		}
	}
}
