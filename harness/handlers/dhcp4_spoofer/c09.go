package dhcp4_spoofer

import (
	"net"
	"net/netip"
	"sync"
	"time"

	"github.com/irai/packet"
)

// C09 (thread mode, DHCP handler): the packet loop's ProcessPacket (a DISCOVER from a new client) runs concurrently
// with the control API called from other goroutines: MinuteTicker, PrintTable, StartHunt, StopHunt, Close.

type verifLockedConn struct {
	mu sync.Mutex
	n  int
}

func (c *verifLockedConn) WriteTo(b []byte, a net.Addr) (int, error) {
	c.mu.Lock()
	c.n++
	c.mu.Unlock()
	return len(b), nil
}
func (c *verifLockedConn) ReadFrom(b []byte) (int, net.Addr, error) { return 0, nil, nil }
func (c *verifLockedConn) Close() error                              { return nil }
func (c *verifLockedConn) LocalAddr() net.Addr                       { return nil }
func (c *verifLockedConn) SetDeadline(t time.Time) error             { return nil }
func (c *verifLockedConn) SetReadDeadline(t time.Time) error         { return nil }
func (c *verifLockedConn) SetWriteDeadline(t time.Time) error        { return nil }

func verifConcreteDiscover(mac []byte) []byte {
	opts := []byte{53, 1, 1, 61, 7, 1, mac[0], mac[1], mac[2], mac[3], mac[4], mac[5], 255}
	for len(opts) < 60 {
		opts = append(opts, 0)
	}
	n := 14 + 20 + 8 + 240 + len(opts)
	b := make([]byte, n)
	copy(b[0:6], []byte{0xff, 0xff, 0xff, 0xff, 0xff, 0xff})
	copy(b[6:12], mac)
	b[12], b[13], b[14] = 0x08, 0x00, 0x45
	tl := n - 14
	b[16], b[17], b[22], b[23] = byte(tl>>8), byte(tl), 64, 17
	copy(b[30:34], []byte{255, 255, 255, 255})
	b[35], b[37] = 68, 67
	ul := n - 34
	b[38], b[39] = byte(ul>>8), byte(ul)
	d := b[42:]
	d[0], d[1], d[2] = 1, 1, 6
	d[4], d[5], d[6], d[7] = 1, 2, 3, 4
	copy(d[28:34], mac)
	d[236], d[237], d[238], d[239] = 99, 130, 83, 99
	copy(d[240:], opts)
	return b
}

func VerifC09DHCP(op int, mode int) {
	hostMAC, routerMAC := []byte{2, 0, 0, 0, 0, 1}, []byte{2, 0, 0, 0, 0, 2}
	nic := &packet.NICInfo{
		HomeLAN4:    netip.PrefixFrom(verifIP(0), 28),
		HostAddr4:   packet.Addr{MAC: net.HardwareAddr(hostMAC), IP: verifHostIP},
		RouterAddr4: packet.Addr{MAC: net.HardwareAddr(routerMAC), IP: verifRouterIP},
	}
	s, err := packet.Config{Conn: &verifLockedConn{}, NICInfo: nic}.NewSession("")
	verifAssert(err == nil, "session-created")
	h, err := Config{Mode: Mode(mode), NetfilterIP: netip.PrefixFrom(verifHostIP, 29), DNSServer: verifDNS, LeaseFilename: ""}.New(s)
	verifAssert(err == nil && h != nil, "handler-created")
	nextAttack = verifTime(int64(1)<<61 - 1)
	// one allocated lease that MinuteTicker may free, and a client that the hunt functions refer to
	old := &Lease{ClientID: []byte{1, 2, 0, 0, 0, 1, 7}, State: StateAllocated, subnet: h.net1,
		Addr: packet.Addr{MAC: net.HardwareAddr{2, 0, 0, 0, 1, 7}, IP: verifIP(5)}}
	if verifBool() {
		old.DHCPExpiry = verifTime(int64(1)<<61 - 2)
	}
	h.table[string(old.ClientID)] = old
	frame, perr := s.Parse(verifConcreteDiscover([]byte{2, 0, 0, 0, 1, 1}))
	verifAssert(perr == nil && frame.PayloadID == packet.PayloadDHCP4, "frame-parsed")
	var wg sync.WaitGroup
	wg.Add(2)
	go func() {
		defer wg.Done()
		h.ProcessPacket(frame)
	}()
	go func() {
		defer wg.Done()
		switch op {
		case 0:
			h.MinuteTicker(time.Now())
		case 1:
			h.PrintTable()
		case 2:
			h.StartHunt(old.Addr)
		case 3:
			h.StopHunt(old.Addr)
		case 4:
			h.Close()
		}
	}()
	wg.Wait()
	h.Close()
	s.Close()
	verifReach("joined")
}
