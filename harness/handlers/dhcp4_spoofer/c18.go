package dhcp4_spoofer

import (
	"errors"
	"net"
	"net/netip"
	"os"
	"time"

	"github.com/irai/packet"
	yaml "gopkg.in/yaml.v2"
)

// C18: lease persistence. gopkg.in/yaml.v2 (a reflection driven parser/emitter) and the file system are outside what
// the engine encodes. They are replaced, in the engine only, by the models below (see modelTab in gse/exec.go):
//   - the lease file holds a deep copy of the exported, non-skipped fields of what was marshalled (fidelity model of
//     yaml.Marshal / yaml.Unmarshal for this one document type);
//   - for the corruption half the parsed document is an ARBITRARY value of the document type: whatever a truncated or
//     damaged file still parses to is some value of that type (over-approximation of every corruption that parses).
// Natively (replay) the real yaml package and real files are used: the arbitrary document is first written with the
// real yaml.Marshal.

type verifLeaseFile = struct {
	Net1   *SubnetConfig
	Net2   *SubnetConfig
	Leases []Lease
}

var (
	verifFileDoc    *verifLeaseFile // document held by the (single) model file
	verifFileExists bool
	verifYAMLBroken bool // the stored bytes do not parse
)

func verifCopyLeaseFile(in *verifLeaseFile) *verifLeaseFile {
	out := &verifLeaseFile{}
	if in.Net1 != nil {
		c := *in.Net1
		out.Net1 = &c
	}
	if in.Net2 != nil {
		c := *in.Net2
		out.Net2 = &c
	}
	for _, l := range in.Leases {
		c := Lease{State: l.State, IPOffer: l.IPOffer, OfferExpiry: l.OfferExpiry, Name: l.Name, DHCPExpiry: l.DHCPExpiry}
		c.Addr.IP, c.Addr.Port = l.Addr.IP, l.Addr.Port
		if len(l.ClientID) > 0 { // omitempty
			c.ClientID = append([]byte{}, l.ClientID...)
		}
		if len(l.XID) > 0 {
			c.XID = append([]byte{}, l.XID...)
		}
		if l.Addr.MAC != nil {
			c.Addr.MAC = append(net.HardwareAddr{}, l.Addr.MAC...)
		}
		out.Leases = append(out.Leases, c) // Count and subnet carry yaml:"-"
	}
	return out
}

func verifModelYAMLMarshal(in interface{}) ([]byte, error) {
	t, ok := in.(*verifLeaseFile)
	if !ok {
		panic("verif: yaml model supports the lease document only")
	}
	verifFileDoc = verifCopyLeaseFile(t)
	return []byte{'y'}, nil
}

func verifModelYAMLUnmarshal(in []byte, out interface{}) error {
	t, ok := out.(*verifLeaseFile)
	if !ok {
		panic("verif: yaml model supports the lease document only")
	}
	if verifYAMLBroken || verifFileDoc == nil {
		return errors.New("yaml: broken document")
	}
	*t = *verifCopyLeaseFile(verifFileDoc)
	return nil
}

func verifModelReadFile(name string) ([]byte, error) {
	if !verifFileExists {
		return nil, errors.New("open: no such file")
	}
	return []byte{'y'}, nil
}

func verifModelWriteFile(name string, data []byte, perm os.FileMode) error {
	verifFileExists = true
	return nil
}

func verifLeasePath() string {
	if verifIsNative() {
		d, _ := os.MkdirTemp("", "verifc18")
		return d + "/leases.yaml"
	}
	return "leases.yaml"
}

// verifWriteDoc makes doc the content of the lease file at path.
func verifWriteDoc(path string, doc *verifLeaseFile) {
	b, err := yaml.Marshal(doc)
	verifAssert(err == nil, "document-marshalled")
	if verifIsNative() {
		os.WriteFile(path, b, 0o644)
	} else {
		verifFileExists = true
	}
}

func verifC18Session() (*packet.Session, []byte) {
	hostMAC, routerMAC := []byte{2, 0, 0, 0, 0, 1}, []byte{2, 0, 0, 0, 0, 2}
	nic := &packet.NICInfo{
		HomeLAN4:    netip.PrefixFrom(verifIP(0), 28),
		HostAddr4:   packet.Addr{MAC: net.HardwareAddr(hostMAC), IP: verifHostIP},
		RouterAddr4: packet.Addr{MAC: net.HardwareAddr(routerMAC), IP: verifRouterIP},
	}
	s, err := packet.Config{Conn: &verifConn{}, NICInfo: nic}.NewSession("")
	verifAssert(err == nil, "session-created")
	verifDropGoroutines()
	return s, hostMAC
}

func verifC18Config(path string) Config {
	return Config{Mode: ModePrimaryServer, NetfilterIP: netip.PrefixFrom(verifHostIP, 29), DNSServer: verifDNS, LeaseFilename: path}
}

// verifArbitraryLease: one lease record as a damaged file may present it.
func verifArbitraryLease() Lease {
	var l Lease
	l.State = State(verifChoose(4)) // free, discover, allocated, and a value outside the enumeration
	switch verifChoose(3) {
	case 0: // no / empty client id
	case 1:
		l.ClientID = verifBytes(7)
	case 2:
		l.ClientID = verifBytes(1)
	}
	if verifBool() {
		l.Addr.MAC = net.HardwareAddr(verifBytes(6))
	}
	switch verifChoose(3) {
	case 0: // unset address
	case 1:
		l.Addr.IP = verifIP(verifU8()) // 192.168.0.x: inside and outside the /28 home LAN
	case 2:
		l.Addr.IP = netip.AddrFrom4([4]byte{verifU8(), verifU8(), verifU8(), verifU8()})
	}
	return l
}

// VerifC18Load: construction from a lease file whose parsed content is arbitrary: no panic, no hang, and the handler
// ends with usable subnets and a table holding only bindings of the file that are allocated, carry a client id and lie
// in the home subnet.  shape: bit0 net1 present, bit1 net2 present, bit2 net1 describes another LAN (config changed),
// bits 3-4 number of lease records (0..2), bit5: the first lease's MAC is captured in the session.
func VerifC18Load(shape int) {
	s, _ := verifC18Session()
	path := verifLeasePath()
	good, err := verifC18Config("").New(s) // what an intact file of this installation describes
	verifAssert(err == nil, "reference-handler-created")
	doc := &verifLeaseFile{}
	if shape&1 != 0 {
		c := good.net1.SubnetConfig
		if shape&4 != 0 {
			c.LAN = netip.PrefixFrom(netip.AddrFrom4([4]byte{10, 0, 0, 0}), 24)
			c.DefaultGW = netip.AddrFrom4([4]byte{10, 0, 0, 1})
		}
		doc.Net1 = &c
	}
	if shape&2 != 0 {
		c := good.net2.SubnetConfig
		doc.Net2 = &c
	}
	n := shape >> 3 & 3
	for i := 0; i < n; i++ {
		doc.Leases = append(doc.Leases, verifArbitraryLease())
	}
	if shape&32 != 0 && n > 0 && doc.Leases[0].Addr.MAC != nil {
		verifAssume(doc.Leases[0].Addr.MAC[0]&1 == 0)
		s.Capture(doc.Leases[0].Addr.MAC)
	}
	verifWriteDoc(path, doc)
	h, err := verifC18Config(path).New(s)
	verifReach("constructed")
	verifAssert(err == nil && h != nil, "C18:construction-succeeds-on-damaged-file")
	if err != nil || h == nil {
		return
	}
	verifAssert(h.net1 != nil && h.net2 != nil && h.table != nil, "C18:handler-usable-after-damaged-file")
	verifAssert(h.net1.LAN == good.net1.LAN && h.net2.LAN == good.net2.LAN, "C18:subnets-are-the-configured-ones")
	for _, l := range h.table {
		verifAssert(len(l.ClientID) > 0, "C18:loaded-binding-has-client-id")
		verifAssert(l.State == StateAllocated, "C18:loaded-binding-is-allocated")
		verifAssert(l.Addr.IP.IsValid() && good.net1.LAN.Contains(l.Addr.IP), "C18:loaded-binding-inside-home-subnet")
		verifAssert(l.subnet == h.net1 || l.subnet == h.net2, "C18:loaded-binding-has-a-subnet")
		inFile := false
		for _, f := range doc.Leases {
			if len(f.ClientID) == len(l.ClientID) && verifBytesDiff(f.ClientID, l.ClientID) == 0 && f.Addr.IP == l.Addr.IP {
				inFile = true
			}
		}
		verifAssert(inFile, "C18:loaded-binding-present-in-file")
	}
	if shape&1 == 0 || shape&2 == 0 || shape&4 != 0 {
		verifAssert(len(h.table) == 0, "C18:table-reset-when-file-incomplete-or-config-changed")
	}
}

// VerifC18Broken: a file that does not parse at all, or no file: construction yields an empty table.
func VerifC18Broken(exists int) {
	s, _ := verifC18Session()
	path := verifLeasePath()
	if exists != 0 {
		if verifIsNative() {
			os.WriteFile(path, []byte("net1: {lan: [\nleases: - x: {{"), 0o644)
		} else {
			verifFileExists, verifYAMLBroken = true, true
		}
	}
	h, err := verifC18Config(path).New(s)
	verifReach("constructed")
	verifAssert(err == nil && h != nil, "C18:construction-succeeds-on-damaged-file")
	if h != nil {
		verifAssert(h.net1 != nil && h.net2 != nil && h.table != nil && len(h.table) == 0, "C18:empty-table-after-unparsable-file")
	}
}

// VerifC18Restart: an arbitrary invariant lease table (nleases <= 2 leases, every state / subnet combination, job
// level split) is saved by the real saveConfig and a new handler is constructed from the file by the real New: the
// new table holds exactly the allocated bindings (client id, MAC, IP, expiry), attached to the subnet the client
// belongs to, and a renewal by the first allocated client is acknowledged.
func VerifC18Restart(nleases int, renew int) {
	s, hostMAC := verifC18Session()
	path := verifLeasePath()
	h, err := verifC18Config(path).New(s)
	verifAssert(err == nil && h != nil, "handler-created")
	nextAttack = verifTime(int64(1)<<61 - 1)
	verifClockRange(verifNowNS, verifNowNS+int64(10*time.Second))
	nsel := 1
	for i := 0; i < nleases; i++ {
		nsel *= 6
	}
	recs := verifLeases(h, nleases, verifSplit(nsel))
	for _, r := range recs { // a client whose lease is attached to the netfilter subnet is a captured client
		if r.net2 {
			s.Capture(net.HardwareAddr(r.mac))
		}
	}
	for i := range recs {
		for j := range recs {
			if i != j {
				verifAssume(verifMACDiff(recs[i].mac, recs[j].mac) != 0)
			}
		}
		verifAssume(verifMACDiff(recs[i].mac, hostMAC) != 0 && verifMACDiff(recs[i].mac, s.NICInfo.RouterAddr4.MAC) != 0)
	}
	verifAssert(h.saveConfig(path) == nil, "C18:lease-file-saved")
	h2, err := verifC18Config(path).New(s)
	verifReach("restarted")
	verifAssert(err == nil && h2 != nil, "C18:restart-succeeds")
	if err != nil || h2 == nil {
		return
	}
	want := 0
	for _, r := range recs {
		if r.state != StateAllocated {
			verifAssert(h2.table[string(r.cid)] == nil, "C18:unacknowledged-lease-not-restored")
			continue
		}
		want++
		l := h2.table[string(r.cid)]
		verifAssert(l != nil, "C18:acknowledged-binding-restored")
		if l == nil {
			continue
		}
		verifAssert(l.State == StateAllocated && l.Addr.IP == r.ip && len(l.Addr.MAC) == 6 && verifMACDiff(l.Addr.MAC, r.mac) == 0 &&
			len(l.ClientID) == len(r.cid) && verifBytesDiff(l.ClientID, r.cid) == 0, "C18:restored-binding-equals-acknowledged-binding")
		verifAssert(l.DHCPExpiry.Equal(r.l.DHCPExpiry), "C18:restored-binding-keeps-expiry")
		if r.net2 {
			verifAssert(l.subnet == h2.net2, "C18:captured-client-lease-stays-on-netfilter-subnet")
		} else {
			verifAssert(l.subnet == h2.net1, "C18:home-client-lease-stays-on-home-subnet")
		}
	}
	verifAssert(len(h2.table) == want, "C18:restored-table-holds-exactly-the-acknowledged-bindings")
	if renew == 0 || len(recs) == 0 || recs[0].state != StateAllocated || recs[0].expired {
		return
	}
	// renewal (REQUEST with ciaddr) by the first client on the restarted handler
	r := recs[0]
	req := verifRequestFrame(3)
	conn := s.Conn.(*verifConn)
	verifAssume(verifMACDiff(req.frame[6:12], req.chaddr) == 0 && verifMACDiff(req.chaddr, r.mac) == 0 && verifBytesDiff(req.cid, r.cid) == 0)
	verifAssume(verifAddr4(req.dhcp, 12) == r.ip && req.srcIP == r.ip)
	frame, err := s.Parse(req.frame)
	if err != nil || frame.PayloadID != packet.PayloadDHCP4 {
		return
	}
	before := len(conn.frames)
	h2.ProcessPacket(frame)
	verifDropGoroutines()
	sent := conn.frames[before:]
	verifReach("renewed")
	verifAssert(len(sent) == 1, "C18:renewal-after-restart-answered")
	if len(sent) == 1 {
		rep := verifDecodeReply(sent[0], hostMAC)
		verifAssert(rep.ok && rep.mtype == 5 && rep.yiaddr == r.ip, "C18:renewal-after-restart-acknowledged")
	}
}
