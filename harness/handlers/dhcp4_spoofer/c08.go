package dhcp4_spoofer

import (
	"github.com/irai/packet"
)

// C08 (handler level): the DHCP handler's ProcessPacket on every frame the real Parse classifies as DHCPv4 whose
// BOOTP header fields are arbitrary and whose options area is n arbitrary bytes (any codes, lengths, missing end
// marker, missing message type): the call returns, never panics, never spins. dir: 0 client->server (port 67),
// 1 server->client (port 68: the handler's own client-side processing).
func VerifC08DHCPPacket(mode int, dir int, maxN int) {
	h, s, _, hostMAC := verifDHCPSetup(Mode(mode))
	n := verifSplit(maxN + 1)
	total := 14 + 20 + 8 + 240 + n
	b := verifBytes(total)
	verifAssume(b[6]&1 == 0 && verifMACDiff(b[6:12], hostMAC) != 0)
	b[12], b[13], b[14] = 0x08, 0x00, 0x45
	tl := total - 14
	b[16], b[17], b[14+9] = byte(tl>>8), byte(tl), 17
	u := 34
	if dir == 0 {
		b[u], b[u+1], b[u+2], b[u+3] = 0, 68, 0, 67
	} else {
		b[u], b[u+1], b[u+2], b[u+3] = 0, 67, 0, 68
	}
	ul := total - 34
	b[u+4], b[u+5] = byte(ul>>8), byte(ul)
	d := b[42:]
	d[236], d[237], d[238], d[239] = 99, 130, 83, 99
	frame, err := s.Parse(b)
	if err != nil || frame.PayloadID != packet.PayloadDHCP4 {
		verifReach("processed")
		return
	}
	_ = h.ProcessPacket(frame)
	verifDropGoroutines()
	verifReach("processed")
}

// VerifC08DHCPOptionsTemplate: options area made of a message-type option with a length of 0, 1 or 2, a second
// option (server identifier / requested address / client id / lease time / parameter list) with a length of 0, 4
// or 7, arbitrary values, with or without the end marker: every combination, both directions.
func VerifC08DHCPOptionsTemplate(mode int, dir int) {
	h, s, _, hostMAC := verifDHCPSetup(Mode(mode))
	l1 := verifChoose(3)
	c2 := []byte{54, 50, 61, 51, 55}[verifChoose(5)]
	l2 := []int{0, 4, 7}[verifChoose(3)]
	end := verifChoose(2)
	var opts []byte
	opts = append(opts, 53, byte(l1))
	opts = append(opts, verifBytes(l1)...)
	opts = append(opts, c2, byte(l2))
	opts = append(opts, verifBytes(l2)...)
	if end != 0 {
		opts = append(opts, 255)
	}
	total := 14 + 20 + 8 + 240 + len(opts)
	b := verifBytes(total)
	verifAssume(b[6]&1 == 0 && verifMACDiff(b[6:12], hostMAC) != 0)
	b[12], b[13], b[14] = 0x08, 0x00, 0x45
	tl := total - 14
	b[16], b[17], b[14+9] = byte(tl>>8), byte(tl), 17
	u := 34
	if dir == 0 {
		b[u], b[u+1], b[u+2], b[u+3] = 0, 68, 0, 67
	} else {
		b[u], b[u+1], b[u+2], b[u+3] = 0, 67, 0, 68
	}
	ul := total - 34
	b[u+4], b[u+5] = byte(ul>>8), byte(ul)
	d := b[42:]
	d[236], d[237], d[238], d[239] = 99, 130, 83, 99
	copy(d[240:], opts)
	frame, err := s.Parse(b)
	if err != nil || frame.PayloadID != packet.PayloadDHCP4 {
		verifReach("processed")
		return
	}
	_ = h.ProcessPacket(frame)
	verifDropGoroutines()
	verifReach("processed")
}
