package icmp_spoofer

import (
	"net"
	"net/netip"
	"sync"
	"time"

	"github.com/irai/packet"
)

// C09 (thread mode, ICMPv6 handler): the NA spoof loop started by StartHunt runs concurrently with the packet loop's
// ProcessPacket (a router advertisement that adds a router) and with StopHunt / StartHunt / PrintTable / Close.

type verifLockedConn struct {
	mu sync.Mutex
	n  int
}

func (c *verifLockedConn) WriteTo(b []byte, a net.Addr) (int, error) {
	c.mu.Lock()
	c.n++
	c.mu.Unlock()
	return len(b), nil
}
func (c *verifLockedConn) ReadFrom(b []byte) (int, net.Addr, error) { return 0, nil, nil }
func (c *verifLockedConn) Close() error                              { return nil }
func (c *verifLockedConn) LocalAddr() net.Addr                       { return nil }
func (c *verifLockedConn) SetDeadline(t time.Time) error             { return nil }
func (c *verifLockedConn) SetReadDeadline(t time.Time) error         { return nil }
func (c *verifLockedConn) SetWriteDeadline(t time.Time) error        { return nil }

func verifLLAFixed(last byte) netip.Addr {
	return netip.AddrFrom16([16]byte{0xfe, 0x80, 0, 0, 0, 0, 0, 0, 0, 0, 0, 0, 0, 0, 0, last})
}

func VerifC09ICMP6(op int, closeEarly int, knownRouter int) {
	nic := &packet.NICInfo{
		HomeLAN4:    netip.PrefixFrom(netip.AddrFrom4([4]byte{192, 168, 0, 0}), 24),
		HostAddr4:   packet.Addr{MAC: net.HardwareAddr{2, 0, 0, 0, 0, 1}, IP: netip.AddrFrom4([4]byte{192, 168, 0, 129})},
		RouterAddr4: packet.Addr{MAC: net.HardwareAddr{2, 0, 0, 0, 0, 2}, IP: netip.AddrFrom4([4]byte{192, 168, 0, 1})},
		HostLLA:     netip.PrefixFrom(verifLLAFixed(9), 64),
	}
	s, err := packet.Config{Conn: &verifLockedConn{}, NICInfo: nic}.NewSession("")
	verifAssert(err == nil, "session-created")
	h, err := New6(s)
	verifAssert(err == nil && h != nil, "handler-created")
	if knownRouter != 0 {
		h.Router, _ = h.findOrCreateRouter(net.HardwareAddr{2, 0, 0, 0, 2, 2}, verifLLAFixed(2))
	}
	victim := packet.Addr{MAC: net.HardwareAddr{2, 0, 0, 0, 1, 1}, IP: verifLLAFixed(0x11)}
	other := packet.Addr{MAC: net.HardwareAddr{2, 0, 0, 0, 1, 2}, IP: verifLLAFixed(0x12)}
	// router advertisement from fe80::1 (no options)
	b := make([]byte, 70)
	copy(b[0:6], []byte{0x33, 0x33, 0, 0, 0, 1})
	copy(b[6:12], []byte{2, 0, 0, 0, 2, 1})
	b[12], b[13] = 0x86, 0xdd
	b[14], b[14+5], b[14+6], b[14+7] = 0x60, 16, 58, 255
	src := verifLLAFixed(1).As16()
	copy(b[14+8:], src[:])
	copy(b[14+24:], []byte{0xff, 2, 0, 0, 0, 0, 0, 0, 0, 0, 0, 0, 0, 0, 0, 1})
	b[54] = 134
	b[54+6], b[54+7] = 0x07, 0x08
	frame, perr := s.Parse(b)
	verifAssert(perr == nil && frame.PayloadID == packet.PayloadICMP6, "frame-parsed")
	repeat = -1

	h.StartHunt(victim) // starts the spoof loop goroutine
	var wg sync.WaitGroup
	wg.Add(1)
	go func() {
		defer wg.Done()
		switch op {
		case 0:
			h.ProcessPacket(frame)
		case 1:
			h.StopHunt(victim)
		case 2:
			h.StartHunt(other)
		case 3:
			h.PrintTable()
		case 4:
			h.StopHunt(victim)
			h.StartHunt(victim)
		}
	}()
	switch closeEarly {
	case 1:
		h.Close()
	case 2: // the packet loop learns a router while the other goroutine runs
		h.ProcessPacket(frame)
	}
	wg.Wait()
	h.Close()
	s.Close()
	verifReach("joined")
}
