package icmp_spoofer

import (
	"github.com/irai/packet"
)

// C08 (handler level): the ICMPv6 and ICMPv4 handlers' ProcessPacket on every frame the real Parse accepts whose
// ICMP message is n arbitrary bytes (type, code, body, options): the call returns, never panics, never spins.

func VerifC08ICMP6Packet(maxN int) {
	h, s, _, hostMAC := verifHandler6()
	verifHunt6(h, verifChoose(2))
	n := verifSplit(maxN + 1)
	b := verifBytes(54 + n)
	verifAssume(b[6]&1 == 0 && verifMACDiff(b[6:12], hostMAC) != 0)
	b[12], b[13] = 0x86, 0xdd
	b[14+4], b[14+5], b[14+6] = byte(n>>8), byte(n), 58
	frame, err := s.Parse(b)
	if err != nil || frame.PayloadID != packet.PayloadICMP6 {
		verifReach("processed")
		return
	}
	repeat = -1
	_ = h.ProcessPacket(frame)
	verifReach("processed")
}

func VerifC08ICMP4Packet(maxN int) {
	_, s, _, hostMAC := verifHandler6()
	h4, err := New4(s)
	verifAssert(err == nil, "handler-created")
	n := verifSplit(maxN + 1)
	b := verifBytes(34 + n)
	verifAssume(b[6]&1 == 0 && verifMACDiff(b[6:12], hostMAC) != 0)
	b[12], b[13], b[14] = 0x08, 0x00, 0x45
	tl := 20 + n
	b[16], b[17], b[14+9] = byte(tl>>8), byte(tl), 1
	frame, perr := s.Parse(b)
	if perr != nil || frame.PayloadID != packet.PayloadICMP4 {
		verifReach("processed")
		return
	}
	_ = h4.ProcessPacket(frame)
	verifReach("processed")
}
