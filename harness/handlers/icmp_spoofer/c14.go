package icmp_spoofer

import (
	"net"
	"net/netip"
	"time"

	"github.com/irai/packet"
)

func verifMACDiff(a, b []byte) byte {
	return (a[0] ^ b[0]) | (a[1] ^ b[1]) | (a[2] ^ b[2]) | (a[3] ^ b[3]) | (a[4] ^ b[4]) | (a[5] ^ b[5])
}
func verifBE16(b []byte, i int) uint16 { return uint16(b[i])<<8 | uint16(b[i+1]) }
func verifBE32(b []byte, i int) uint32 {
	return uint32(b[i])<<24 | uint32(b[i+1])<<16 | uint32(b[i+2])<<8 | uint32(b[i+3])
}
func verifAddr16(b []byte, i int) netip.Addr {
	var a [16]byte
	for k := 0; k < 16; k++ {
		a[k] = b[i+k]
	}
	return netip.AddrFrom16(a)
}
func verifLLA() netip.Addr {
	b := verifBytes(8)
	return netip.AddrFrom16([16]byte{0xfe, 0x80, 0, 0, 0, 0, 0, 0, b[0], b[1], b[2], b[3], b[4], b[5], b[6], b[7]})
}

func verifHandler6() (*Handler6, *packet.Session, *verifConn, []byte) {
	hostMAC, routerMAC := verifBytes(6), verifBytes(6)
	verifAssume(hostMAC[0]&1 == 0 && routerMAC[0]&1 == 0 && verifMACDiff(hostMAC, routerMAC) != 0)
	nic := &packet.NICInfo{
		HomeLAN4:    netip.PrefixFrom(netip.AddrFrom4([4]byte{192, 168, 0, 0}), 24),
		HostAddr4:   packet.Addr{MAC: net.HardwareAddr(hostMAC), IP: netip.AddrFrom4([4]byte{192, 168, 0, 129})},
		RouterAddr4: packet.Addr{MAC: net.HardwareAddr(routerMAC), IP: netip.AddrFrom4([4]byte{192, 168, 0, 1})},
		HostLLA:     netip.PrefixFrom(verifLLA(), 64),
	}
	conn := &verifConn{}
	s, err := packet.Config{Conn: conn, NICInfo: nic}.NewSession("")
	verifAssert(err == nil, "session-created")
	verifDropGoroutines()
	h, err := New6(s)
	verifAssert(err == nil && h != nil, "handler-created")
	return h, s, conn, hostMAC
}

func verifHunt6(h *Handler6, k int) [][]byte {
	var macs [][]byte
	for i := 0; i < k; i++ {
		m := verifBytes(6)
		verifAssume(m[0]&1 == 0)
		for _, o := range macs {
			verifAssume(verifMACDiff(m, o) != 0)
		}
		macs = append(macs, m)
		h.huntList.Add(packet.Addr{MAC: net.HardwareAddr(m), IP: verifLLA()})
	}
	return macs
}

// VerifC14HuntOps: StartHunt / StopHunt filters and the set semantics of the hunt list.
func VerifC14HuntOps() {
	h, _, _, _ := verifHandler6()
	macs := verifHunt6(h, verifChoose(4))
	m := verifBytes(6)
	known := -1
	for i, o := range macs {
		if verifMACDiff(m, o) == 0 {
			known = i
		}
	}
	n0 := h.huntList.Len()
	switch verifChoose(5) {
	case 0: // IPv4 targets are rejected
		_, err := h.StartHunt(packet.Addr{MAC: net.HardwareAddr(m), IP: netip.AddrFrom4([4]byte{192, 168, 0, verifU8()})})
		verifAssert(err != nil && h.huntList.Len() == n0 && verifPendingGoroutines() == 0, "C14:starthunt-rejects-ipv4")
	case 1: // non-link-local IPv6 targets are ignored
		b := verifBytes(16)
		var a [16]byte
		copy(a[:], b)
		ip := netip.AddrFrom16(a)
		verifAssume(!ip.Is4In6() && !ip.IsLinkLocalUnicast())
		st, err := h.StartHunt(packet.Addr{MAC: net.HardwareAddr(m), IP: ip})
		verifAssert(err == nil && st == packet.StageNoChange && h.huntList.Len() == n0 && verifPendingGoroutines() == 0, "C14:starthunt-ignores-non-link-local")
	case 2: // link-local (or address-less) targets: idempotent per MAC, one loop
		ip := verifLLA()
		if verifChoose(2) == 1 {
			ip = netip.Addr{}
		}
		_, err := h.StartHunt(packet.Addr{MAC: net.HardwareAddr(m), IP: ip})
		verifAssert(err == nil, "C14:starthunt-ok")
		n1 := h.huntList.Len()
		verifAssert((known >= 0 && n1 == n0) || (known < 0 && n1 == n0+1), "C14:starthunt-adds-at-most-one-entry-per-mac")
		loops := verifPendingGoroutines()
		verifAssert((known >= 0 && loops == 0) || (known < 0 && loops == 1), "C14:one-spoof-loop-per-hunted-mac")
		_, err = h.StartHunt(packet.Addr{MAC: net.HardwareAddr(m), IP: ip})
		verifAssert(err == nil && h.huntList.Len() == n1 && verifPendingGoroutines() == loops, "C14:starthunt-idempotent")
		verifAssert(h.huntList.Index(net.HardwareAddr(m)) >= 0, "C14:starthunt-mac-hunted")
		verifDropGoroutines()
	case 3: // StopHunt removes exactly that MAC (also from the middle of the list)
		h.StopHunt(packet.Addr{MAC: net.HardwareAddr(m), IP: verifLLA()})
		if known >= 0 {
			verifAssert(h.huntList.Len() == n0-1, "C14:stophunt-removes-the-mac")
		} else {
			verifAssert(h.huntList.Len() == n0, "C14:stophunt-of-unknown-mac-changes-nothing")
		}
		verifAssert(h.huntList.Index(net.HardwareAddr(m)) == -1, "C14:stophunt-mac-gone")
		for i, o := range macs {
			if i != known {
				verifAssert(h.huntList.Index(net.HardwareAddr(o)) >= 0, "C14:stophunt-keeps-other-macs")
			}
		}
	case 4: // StopHunt of a non-link-local address is ignored
		b := verifBytes(16)
		var a [16]byte
		copy(a[:], b)
		ip := netip.AddrFrom16(a)
		verifAssume(!ip.IsLinkLocalUnicast())
		h.StopHunt(packet.Addr{MAC: net.HardwareAddr(m), IP: ip})
		verifAssert(h.huntList.Len() == n0, "C14:stophunt-ignores-non-link-local")
	}
	verifReach("processed")
}

// verifNA checks one forged neighbour advertisement frame.
func verifNA(f []byte, hostMAC []byte, id string) (dstMAC []byte, target netip.Addr, ok bool) {
	verifAssert(len(f) == 14+40+32 && verifBE16(f, 12) == 0x86dd, id+":complete-na-frame")
	if len(f) != 86 {
		return nil, netip.Addr{}, false
	}
	verifAssert(verifMACDiff(f[6:12], hostMAC) == 0, "C07:"+id+":ethernet-source-is-host-nic-mac")
	ip := f[14:]
	verifAssert(ip[0]>>4 == 6 && int(verifBE16(ip, 4)) == 32 && ip[6] == 58, "C07:"+id+":ipv6-header-consistent")
	verifAssert(ip[7] == 255, "C14:"+id+":hop-limit-255")
	m := ip[40:]
	verifAssert(m[0] == 136 && m[1] == 0, "C14:"+id+":is-neighbour-advertisement")
	verifAssert(m[4]&0x20 != 0, "C14:"+id+":override-flag-set")
	verifAssert(m[24] == 2 && m[25] == 1 && verifMACDiff(m[26:32], hostMAC) == 0, "C14:"+id+":target-lla-is-our-mac")
	return f[0:6], verifAddr16(m, 8), true
}

// VerifC14Loop: the NA spoof loop for one hunted host with nrouters learned routers; StopHunt (mode 0) or Close
// (mode 1) arrives after `after` loop iterations (delivered between two iterations).
func VerifC14Loop(mode, after, nrouters int) {
	h, _, conn, hostMAC := verifHandler6()
	others := verifHunt6(h, verifChoose(2))
	m := verifBytes(6)
	verifAssume(m[0]&1 == 0)
	for _, o := range others {
		verifAssume(verifMACDiff(m, o) != 0)
	}
	addr := packet.Addr{MAC: net.HardwareAddr(m), IP: verifLLA()}
	h.huntList.Add(addr)
	var routers []netip.Addr
	for i := 0; i < nrouters; i++ {
		rip := verifLLA()
		for _, o := range routers {
			verifAssume(o != rip)
		}
		routers = append(routers, rip)
		h.findOrCreateRouter(net.HardwareAddr(verifBytes(6)), rip)
	}
	per := nrouters // frames per iteration
	stopped := false
	stop := func() {
		if mode == 0 {
			h.StopHunt(addr)
		} else {
			h.Close()
		}
		stopped = true
	}
	if after == 0 || per == 0 {
		stop()
	}
	conn.hook = func(frame []byte) {
		if !stopped && len(conn.frames) == after*per {
			stop()
		}
		verifAssert(len(conn.frames) <= after*per, "C14:no-forged-advertisement-after-stophunt-or-close")
		verifAssume(len(conn.frames) <= after*per+2)
	}
	h.spoofLoop(addr)
	verifReach("processed")
	if per == 0 {
		verifAssert(len(conn.frames) == 0, "C14:nothing-sent-before-a-router-is-learned")
	}
	for _, f := range conn.frames {
		dst, target, ok := verifNA(f, hostMAC, "loop")
		if !ok {
			continue
		}
		verifAssert(verifMACDiff(dst, m) == 0, "C14:forged-advertisement-only-to-the-hunted-mac")
		isRouter := false
		for _, r := range routers {
			if r == target {
				isRouter = true
			}
		}
		verifAssert(isRouter, "C14:advertised-target-is-a-learned-router")
	}
}

// ---- router learning from router advertisements: differential against an independent decoder

// VerifC14RA: optsel selects the option list: bit0 prefix information, bit1 MTU, bit2 RDNSS (1 server), bit3 source LLA,
// bit4 DNS search list with one single-label name of 1..7 letters (every padding length 0..6); bit5 (with bit2): the RDNSS
// option carries 16 servers (33 units = 264 bytes: an option length that does not fit 8 bits once multiplied by 8); bit6: the
// list starts with an option of unknown type 200 and 32 units (256 bytes, arbitrary contents), which a receiver skips.
func VerifC14RA(optsel int) {
	h, s, _, hostMAC := verifHandler6()
	n := 14 + 40 + 16
	nameLen, dnsslLen := 0, 0
	if optsel&16 != 0 {
		nameLen = 1 + verifChoose(7)
		dnsslLen = 8 + (nameLen+2+7)/8*8
		n += dnsslLen
	}
	if optsel&1 != 0 {
		n += 32
	}
	if optsel&2 != 0 {
		n += 8
	}
	nsrv := 1
	if optsel&32 != 0 {
		nsrv = 16
	}
	if optsel&4 != 0 {
		n += 8 + 16*nsrv
	}
	if optsel&8 != 0 {
		n += 8
	}
	if optsel&64 != 0 {
		n += 256
	}
	b := verifBytes(n)
	verifAssume(b[6]&1 == 0 && verifMACDiff(b[6:12], hostMAC) != 0)
	b[12], b[13] = 0x86, 0xdd
	pl := n - 54
	b[14+4], b[14+5], b[14+6] = byte(pl>>8), byte(pl), 58
	b[14+8], b[14+9] = 0xfe, 0x80 // link-local source: the router becomes a tracked host
	for i := 10; i < 16; i++ {
		b[14+i] = 0
	}
	m := b[54:]
	m[0], m[1] = 134, 0
	i := 16
	pfx, mtu, rd, sl := -1, -1, -1, -1
	if optsel&64 != 0 {
		m[i], m[i+1] = 200, 32
		i += 256
	}
	if optsel&1 != 0 {
		pfx = i
		m[i], m[i+1] = 3, 4
		i += 32
	}
	if optsel&2 != 0 {
		mtu = i
		m[i], m[i+1] = 5, 1
		i += 8
	}
	if optsel&4 != 0 {
		rd = i
		m[i], m[i+1] = 25, byte(1+2*nsrv)
		i += 8 + 16*nsrv
	}
	if optsel&8 != 0 {
		sl = i
		m[i], m[i+1] = 1, 1
		i += 8
	}
	dl := -1
	if optsel&16 != 0 {
		dl = i
		m[i], m[i+1] = 31, byte(dnsslLen/8)
		m[i+8] = byte(nameLen)
		for k := 0; k < nameLen; k++ {
			m[i+9+k] = byte('a' + k)
		}
		for k := i + 9 + nameLen; k < i+dnsslLen; k++ {
			m[k] = 0
		}
		i += dnsslLen
	}
	ref := make([]byte, len(m)) // private copy for the reference decoder
	copy(ref, m)
	src := verifAddr16(b, 14+8)
	smac := make([]byte, 6)
	copy(smac, b[6:12])
	verifTagInput(b) // C10: nothing the handler or the session keeps may point into the frame buffer
	frame, err := s.Parse(b)
	if err != nil || frame.PayloadID != packet.PayloadICMP6 {
		return
	}
	repeat = -1 // the handler processes one advertisement in four; this one is processed
	perr := h.ProcessPacket(frame)
	verifReach("processed")
	if pfx >= 0 {
		// the prefix option is rejected unless its address is IPv6 (always) - accepted
	}
	verifAssert(perr == nil, "C14:well-formed-ra-accepted")
	if perr != nil {
		return
	}
	r := h.FindRouter(src)
	verifAssert(r.Addr.IP == src, "C14:router-learned-under-its-source-address")
	verifAssert(r.ManagedFlag == (ref[5]&0x80 != 0) && r.OtherCondigFlag == (ref[5]&0x40 != 0), "C14:ra-m-o-flags")
	verifAssert(r.Preference == (ref[5]>>3)&3, "C14:ra-preference")
	verifAssert(r.CurHopLimit == ref[4], "C14:ra-hop-limit")
	verifAssert(r.DefaultLifetime == time.Duration(verifBE16(ref, 6))*time.Second, "C14:ra-router-lifetime")
	verifAssert(r.ReacheableTime == int(verifBE32(ref, 8)) && r.RetransTimer == int(verifBE32(ref, 12)), "C14:ra-reachable-and-retransmit-timers")
	if sl >= 0 {
		verifAssert(len(r.Addr.MAC) == 6 && verifMACDiff(r.Addr.MAC, ref[sl+2:sl+8]) == 0, "C14:ra-source-lla")
		verifAssert(len(r.Options.SourceLLA.MAC) == 6 && verifMACDiff(r.Options.SourceLLA.MAC, ref[sl+2:sl+8]) == 0, "C14:ra-source-lla-option")
	} else {
		verifAssert(len(r.Addr.MAC) == 6 && verifMACDiff(r.Addr.MAC, smac) == 0, "C14:ra-router-mac-defaults-to-ethernet-source")
	}
	if pfx >= 0 {
		verifAssert(len(r.Prefixes) == 1, "C14:ra-one-prefix")
		if len(r.Prefixes) == 1 {
			p := r.Prefixes[0]
			o := ref[pfx:]
			verifAssert(p.PrefixLength == o[2] && p.OnLink == (o[3]&0x80 != 0) && p.AutonomousAddressConfiguration == (o[3]&0x40 != 0), "C14:ra-prefix-length-and-flags")
			verifAssert(p.ValidLifetime == time.Duration(verifBE32(o, 4))*time.Second && p.PreferredLifetime == time.Duration(verifBE32(o, 8))*time.Second, "C14:ra-prefix-lifetimes")
			if o[2] == 64 { // bits past the prefix length are ignored by the receiver: compare a /64
				okp := len(p.Prefix) == 16
				for k := 0; k < 8 && okp; k++ {
					okp = p.Prefix[k] == o[16+k] && p.Prefix[8+k] == 0
				}
				verifAssert(okp, "C14:ra-prefix-bytes")
			}
		}
	} else {
		verifAssert(len(r.Prefixes) == 0, "C14:ra-no-prefix")
	}
	if mtu >= 0 {
		verifAssert(uint32(r.Options.MTU) == verifBE32(ref, mtu+4), "C14:ra-mtu")
	}
	if rd >= 0 {
		o := ref[rd:]
		verifAssert(r.Options.RDNSS.Lifetime == time.Duration(verifBE32(o, 4))*time.Second, "C14:ra-rdnss-lifetime")
		verifAssert(len(r.Options.RDNSS.Servers) == nsrv, "C14:ra-rdnss-one-server")
		if len(r.Options.RDNSS.Servers) == nsrv {
			for _, j := range []int{0, nsrv - 1} {
				sv := r.Options.RDNSS.Servers[j]
				oks := len(sv) == 16
				for k := 0; k < 16 && oks; k++ {
					oks = sv[k] == o[8+16*j+k]
				}
				verifAssert(oks, "C14:ra-rdnss-server-bytes")
			}
		}
	}
	if dl >= 0 {
		o := ref[dl:]
		d := r.Options.DNSSearchList
		verifAssert(d.Lifetime == time.Duration(verifBE32(o, 4))*time.Second, "C14:ra-dnssl-lifetime")
		verifAssert(len(d.DomainNames) == 1, "C14:ra-dnssl-one-name")
		if len(d.DomainNames) == 1 {
			verifAssert(d.DomainNames[0] == "abcdefg"[:nameLen], "C14:ra-dnssl-name")
		}
	}
	verifNoInputAlias(h, "C10:icmp6-handler-retains-packet-buffer")
	verifNoInputAlias(s, "C10:session-retains-packet-buffer-after-ra")
}
