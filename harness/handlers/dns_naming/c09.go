package dns_naming

import (
	"net/netip"
	"sync"
)

// C09 (thread mode, naming handler): the packet loop's ProcessDNS / ProcessMDNS runs concurrently with the query API
// (DNSFind, DNSExist, PrintDNSTable) called from other goroutines; the entry returned by DNSFind is read afterwards
// by its caller while the packet loop keeps updating the table.
func VerifC09DNS(op int, kind int) {
	h, s := verifDNSHandler()
	m := verifDNSNew(7, 0x8180, 1, 2, 0, 0)
	m.fixed("ab.cd")
	m.root()
	m.u16(1)
	m.u16(1)
	m.ptr(12)
	at := m.rrHeader(1, 60)
	m.raw([]byte{10, 0, 0, 1})
	m.rdEnd(at)
	m.ptr(12)
	at = m.rrHeader(28, 60)
	m.raw([]byte{0xfe, 0x80, 0, 0, 0, 0, 0, 0, 0, 0, 0, 0, 0, 0, 0, 1})
	m.rdEnd(at)
	frame := verifUDPFrame(s, 53, 40000, m.bytes())
	if kind == 1 { // the name is already in the table: the update modifies the stored entry's maps
		m0 := verifDNSNew(6, 0x8180, 1, 1, 0, 0)
		m0.fixed("ab.cd")
		m0.root()
		m0.u16(1)
		m0.u16(1)
		m0.ptr(12)
		at := m0.rrHeader(1, 60)
		m0.raw([]byte{10, 0, 0, 2})
		m0.rdEnd(at)
		_, err := h.ProcessDNS(verifUDPFrame(s, 53, 40000, m0.bytes()))
		verifAssert(err == nil, "first-response-processed")
	}
	var wg sync.WaitGroup
	wg.Add(2)
	go func() {
		defer wg.Done()
		h.ProcessDNS(frame)
	}()
	go func() {
		defer wg.Done()
		switch op {
		case 0:
			e := h.DNSFind("ab.cd")
			for _, r := range e.IP4Records { // the caller owns the copy
				_ = r.IP
			}
			_ = len(e.IP6Records)
		case 1:
			_ = h.DNSExist(netip.AddrFrom4([4]byte{10, 0, 0, 1}))
		case 2:
			h.PrintDNSTable()
		}
	}()
	wg.Wait()
	s.Close()
	verifReach("joined")
}
