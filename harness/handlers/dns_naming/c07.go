package dns_naming

import (
	"net/netip"

	"github.com/irai/packet"
)

// C07 (naming handler): every query frame the handler writes to the session connection (NBNS node status / name
// query, mDNS, LLMNR, SSDP M-SEARCH) is a complete, length-consistent Ethernet/IPv4/UDP packet from the host NIC MAC
// and address to the protocol's address and port, with a verifying IPv4 header checksum and the requested question.

func verifBE16(b []byte, i int) uint16 { return uint16(b[i])<<8 | uint16(b[i+1]) }

func verifFold(s uint32) uint16 {
	s = (s & 0xffff) + (s >> 16)
	s = (s & 0xffff) + (s >> 16)
	return uint16(s)
}

// verifNamingFrame checks the layers below the DNS message and returns the UDP payload.
func verifNamingFrame(f []byte, id string, srcIP, dstIP netip.Addr, port uint16) []byte {
	verifAssert(len(f) >= 14+20+8, "C07:"+id+":complete-frame")
	if len(f) < 42 {
		return nil
	}
	verifAssert(verifStrEq(string(f[6:12]), []byte{2, 0, 0, 0, 0, 1}), "C07:"+id+":ethernet-source-is-host-nic-mac")
	verifAssert(verifBE16(f, 12) == 0x0800, "C07:"+id+":ethertype-ipv4")
	ip := f[14:]
	verifAssert(ip[0] == 0x45 && int(verifBE16(ip, 2)) == len(f)-14 && ip[9] == 17, "C07:"+id+":ipv4-header-consistent")
	var s uint32
	for i := 0; i < 20; i += 2 {
		s += uint32(verifBE16(ip, i))
	}
	verifAssert(verifFold(s) == 0xffff, "C07:"+id+":ipv4-header-checksum-verifies")
	verifAssert(verifAddr4(ip[12:16]) == srcIP, "C07:"+id+":ip-source-is-host-address")
	verifAssert(verifAddr4(ip[16:20]) == dstIP, "C07:"+id+":ip-destination-is-the-protocol-address")
	udp := ip[20:]
	verifAssert(verifBE16(udp, 0) == port && verifBE16(udp, 2) == port, "C07:"+id+":udp-ports")
	verifAssert(int(verifBE16(udp, 4)) == len(udp), "C07:"+id+":udp-length-consistent")
	return udp[8:]
}

// verifQuestion walks an uncompressed question name and returns its dotted text and the offset after type/class.
func verifQuestion(m []byte) (name []byte, qtype, qclass uint16, ok bool) {
	if len(m) < 12 || verifBE16(m, 4) != 1 {
		return nil, 0, 0, false
	}
	i := 12
	for i < len(m) && m[i] != 0 {
		l := int(m[i])
		if l > 63 || i+1+l > len(m) {
			return nil, 0, 0, false
		}
		if len(name) > 0 {
			name = append(name, '.')
		}
		name = append(name, m[i+1:i+1+l]...)
		i += 1 + l
	}
	if i+5 > len(m) {
		return nil, 0, 0, false
	}
	return name, verifBE16(m, i+1), verifBE16(m, i+3), true
}

// VerifC07Naming: kind 0 NBNS node status, 1 NBNS name query, 2 mDNS query, 3 LLMNR query, 4 SSDP search.
func VerifC07Naming(kind int) {
	h, s := verifDNSHandler()
	conn := s.Conn.(*verifConn)
	host := s.NICInfo.HostAddr4
	lab := verifBytes(5)
	for _, c := range lab {
		verifAssume(c >= 'a' && c <= 'z')
	}
	var err error
	switch kind {
	case 0:
		err = h.SendNBNSNodeStatus()
	case 1:
		err = h.SendNBNSQuery(host, packet.IP4BroadcastAddr, string(lab))
	case 2:
		err = h.SendMDNSQuery(string(lab) + ".local.")
	case 3:
		err = h.SendLLMNRQuery(string(lab) + ".")
	case 4:
		err = h.SendSSDPSearch()
	}
	verifReach("sent")
	verifAssert(err == nil, "C07:naming:send-succeeds")
	verifAssert(len(conn.frames) == 1, "C07:naming:one-frame-per-query")
	if len(conn.frames) != 1 {
		return
	}
	f := conn.frames[0]
	switch kind {
	case 0, 1:
		m := verifNamingFrame(f, "nbns", host.IP, netip.AddrFrom4([4]byte{255, 255, 255, 255}), 137)
		name, qt, qc, ok := verifQuestion(m)
		verifAssert(ok && len(name) == 32, "C07:nbns:question-is-a-first-level-encoded-name")
		if ok && len(name) == 32 {
			want := []byte("*               ")
			wt := uint16(0x21)
			if kind == 1 {
				want = append(append([]byte{}, lab...), []byte("           ")...)
				wt = 0x20
			}
			dec := make([]byte, 16)
			for i := 0; i < 16; i++ {
				dec[i] = (name[2*i]-'A')<<4 | (name[2*i+1] - 'A')
			}
			verifAssert(verifStrEq(string(dec[:len(want)]), want), "C07:nbns:question-name-is-the-requested-name")
			verifAssert(qt == wt && qc == 1, "C07:nbns:question-type-class")
		}
	case 2, 3:
		dst, port, id := netip.AddrFrom4([4]byte{224, 0, 0, 251}), uint16(5353), "mdns"
		want := append(append([]byte{}, lab...), []byte(".local")...)
		if kind == 3 {
			dst, port, id = netip.AddrFrom4([4]byte{224, 0, 0, 252}), 5355, "llmnr"
			want = lab
		}
		m := verifNamingFrame(f, id, host.IP, dst, port)
		name, _, _, ok := verifQuestion(m)
		verifAssert(ok && verifStrEq(string(name), want), "C07:"+id+":question-name-is-the-requested-name")
		verifAssert(len(m) >= 12 && m[2]&0x80 == 0, "C07:"+id+":is-a-query")
	case 4:
		m := verifNamingFrame(f, "ssdp", host.IP, netip.AddrFrom4([4]byte{239, 255, 255, 250}), 1900)
		verifAssert(len(m) > 21 && verifStrEq(string(m[:21]), []byte("M-SEARCH * HTTP/1.1\r\n")), "C07:ssdp:m-search-request-line-first")
		verifAssert(len(m) > 4 && verifStrEq(string(m[len(m)-4:]), []byte("\r\n\r\n")), "C07:ssdp:terminated-by-empty-line")
		bare, host, man := false, false, false
		for i := 0; i < len(m); i++ {
			if m[i] == '\n' && (i == 0 || m[i-1] != '\r') {
				bare = true
			}
			if i+28 <= len(m) && verifStrEq(string(m[i:i+28]), []byte("\r\nHOST: 239.255.255.250:1900")) {
				host = true
			}
			if i+22 <= len(m) && verifStrEq(string(m[i:i+22]), []byte("\r\nMAN: \"ssdp:discover\"")) {
				man = true
			}
		}
		verifAssert(!bare, "C07:ssdp:every-line-ends-with-crlf")
		verifAssert(host && man, "C07:ssdp:host-and-man-headers")
	}
}
