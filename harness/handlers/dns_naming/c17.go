package dns_naming

import (
	"net"
	"net/netip"

	"github.com/irai/packet"
)

// C17 (naming handler level): the real DNSHandler (constructed without sockets) processes frames that went through the
// real Session.Parse; messages come from the independent builder (harness/shared/dnsbuild.go).

func verifDNSHandler() (*DNSHandler, *packet.Session) {
	hostMAC, routerMAC := []byte{2, 0, 0, 0, 0, 1}, []byte{2, 0, 0, 0, 0, 2}
	nic := &packet.NICInfo{
		HomeLAN4:    netip.PrefixFrom(netip.AddrFrom4([4]byte{192, 168, 0, 0}), 24),
		HostAddr4:   packet.Addr{MAC: net.HardwareAddr(hostMAC), IP: netip.AddrFrom4([4]byte{192, 168, 0, 129})},
		RouterAddr4: packet.Addr{MAC: net.HardwareAddr(routerMAC), IP: netip.AddrFrom4([4]byte{192, 168, 0, 1})},
	}
	s, err := packet.Config{Conn: &verifConn{}, NICInfo: nic}.NewSession("")
	verifAssert(err == nil, "session-created")
	verifDropGoroutines()
	h := &DNSHandler{session: s, DNSTable: make(map[string]packet.DNSEntry), mdnsCache: make(map[string]cache)}
	return h, s
}

var verifClientMAC = []byte{2, 0, 0, 0, 0, 9}

// verifUDPFrame wraps payload in Ethernet/IPv4/UDP (from the LAN client 192.168.0.9) and parses it with the real Parse.
func verifUDPFrame(s *packet.Session, srcPort, dstPort uint16, payload []byte) packet.Frame {
	n := 14 + 20 + 8 + len(payload)
	b := make([]byte, n)
	copy(b[0:6], []byte{2, 0, 0, 0, 0, 1})
	copy(b[6:12], verifClientMAC)
	b[12], b[13] = 0x08, 0x00
	ip := b[14:]
	ip[0] = 0x45
	ip[2], ip[3] = byte((n-14)>>8), byte(n-14)
	ip[8], ip[9] = 64, 17
	copy(ip[12:16], []byte{192, 168, 0, 9})
	copy(ip[16:20], []byte{192, 168, 0, 129})
	udp := ip[20:]
	udp[0], udp[1] = byte(srcPort>>8), byte(srcPort)
	udp[2], udp[3] = byte(dstPort>>8), byte(dstPort)
	udp[4], udp[5] = byte((8+len(payload))>>8), byte(8+len(payload))
	copy(udp[8:], payload)
	verifTagInput(b) // C10: nothing retained may point into the frame buffer
	frame, err := s.Parse(b)
	verifAssert(err == nil, "frame-parsed")
	verifAssert(len(frame.Payload()) == len(payload), "frame-payload-is-the-dns-message")
	return frame
}

func verifAddr4(b []byte) netip.Addr { return netip.AddrFrom4([4]byte{b[0], b[1], b[2], b[3]}) }
func verifAddr16(b []byte) netip.Addr {
	var a [16]byte
	copy(a[:], b)
	return netip.AddrFrom16(a)
}

// VerifC17ProcessDNS: a response with A, AAAA and CNAME records for a compressed name is stored under the question
// name with exactly the builder's records; a later response for the same name adds to the entry and never drops
// what is there; the returned entry is a copy.
func VerifC17ProcessDNS(sc int) {
	h, s := verifDNSHandler()
	lens := []int{3, 7, 3}
	if sc == 1 {
		lens = []int{2, 2}
	}
	m := verifDNSNew(verifU16(), 0x8180, 1, 3, 0, 0)
	q := m.labels(nil, lens...)
	m.root()
	m.u16(1)
	m.u16(1)
	ttl1, ttl2, ttl3 := verifU32(), verifU32(), verifU32()
	ip1, ip6 := verifBytes(4), verifBytes(16)
	// <q> CNAME <suffix of q> ; <suffix> A ip1 ; <suffix> AAAA ip6
	m.ptr(12)
	at := m.rrHeader(5, ttl1)
	rd := m.i
	m.ptr(12 + 1 + lens[0])
	m.rdEnd(at)
	cname := q[lens[0]+1:]
	m.ptr(rd)
	at = m.rrHeader(1, ttl2)
	m.raw(ip1)
	m.rdEnd(at)
	m.ptr(12 + 1 + lens[0])
	at = m.rrHeader(28, ttl3)
	m.raw(ip6)
	m.rdEnd(at)
	frame := verifUDPFrame(s, 53, 40000, m.bytes())
	e, err := h.ProcessDNS(frame)
	verifAssert(err == nil, "C17:process-dns:well-formed-response-accepted")
	if err != nil {
		return
	}
	verifReach("processed")
	a1, a6 := verifAddr4(ip1), verifAddr16(ip6)
	check := func(e packet.DNSEntry, id string) {
		verifAssert(verifStrEq(e.Name, q), "C17:"+id+":entry-name-is-the-question-name")
		r, ok := e.IP4Records[a1]
		verifAssert(ok && verifStrEq(r.Name, cname) && r.IP == a1 && r.TTL == ttl2, "C17:"+id+":a-record")
		r, ok = e.IP6Records[a6]
		verifAssert(ok && verifStrEq(r.Name, cname) && r.IP == a6 && r.TTL == ttl3, "C17:"+id+":aaaa-record")
		verifAssert(len(e.CNameRecords) == 1, "C17:"+id+":cname-count")
		for _, c := range e.CNameRecords {
			verifAssert(verifStrEq(c.Name, q) && verifStrEq(c.CName, cname) && c.TTL == ttl1, "C17:"+id+":cname-record")
		}
	}
	check(e, "process-dns")
	verifNoInputAlias(h, "C10:dns-handler-retains-packet-buffer")
	verifNoInputAlias(e, "C10:returned-dns-entry-references-packet-buffer")
	verifAssert(len(e.IP4Records) == 1 && len(e.IP6Records) == 1 && len(e.PTRRecords) == 0, "C17:process-dns:no-other-records")
	check(h.DNSFind(string(q)), "dns-find")
	verifAssert(len(h.DNSTable) == 1, "C17:process-dns:one-table-entry")

	// second response for the same name with one more address
	m2 := verifDNSNew(verifU16(), 0x8180, 1, 1, 0, 0)
	m2.raw(frame.Payload()[12 : 12+len(q)+1])
	m2.root()
	m2.u16(1)
	m2.u16(1)
	m2.ptr(12)
	ip2 := verifBytes(4)
	at = m2.rrHeader(1, verifU32())
	m2.raw(ip2)
	m2.rdEnd(at)
	e2, err := h.ProcessDNS(verifUDPFrame(s, 53, 40000, m2.bytes()))
	verifAssert(err == nil, "C17:process-dns:second-response-accepted")
	a2 := verifAddr4(ip2)
	got := h.DNSFind(string(q))
	check(got, "merge-keeps-records")
	_, ok := got.IP4Records[a2]
	verifAssert(ok, "C17:process-dns:second-response-address-added")
	if a2 == a1 {
		verifAssert(len(e2.IP4Records) == 0 && e2.Name == "", "C17:process-dns:no-update-reported-for-known-record")
	} else {
		verifAssert(len(e2.IP4Records) == 2, "C17:process-dns:update-returns-merged-entry")
	}
	verifAssert(len(e.IP4Records) == 1, "C17:process-dns:returned-entry-is-a-copy")
}

// VerifC17ProcessDNSSingle: a response carrying a single record of one kind (0 A, 1 AAAA, 2 CNAME) for a new name is
// stored under the question name and returned; a second, different record of the same kind is added and reported.
func VerifC17ProcessDNSSingle(kind int) {
	h, s := verifDNSHandler()
	build := func(rd []byte) []byte {
		m := verifDNSNew(verifU16(), 0x8180, 1, 1, 0, 0)
		m.fixed("ab.cd")
		m.root()
		m.u16(1)
		m.u16(1)
		m.ptr(12)
		t := []uint16{1, 28, 5}[kind]
		at := m.rrHeader(t, 60)
		m.raw(rd)
		m.rdEnd(at)
		return m.bytes()
	}
	n := []int{4, 16, 4}[kind]
	rd1 := verifBytes(n)
	if kind == 2 {
		rd1 = []byte{1, 'x', 0xc0, 12}
	}
	e, err := h.ProcessDNS(verifUDPFrame(s, 53, 40000, build(rd1)))
	verifReach("processed")
	verifAssert(err == nil, "C17:single:response-accepted")
	got := h.DNSFind("ab.cd")
	switch kind {
	case 0:
		_, ok := got.IP4Records[verifAddr4(rd1)]
		verifAssert(ok && len(e.IP4Records) == 1, "C17:single:a-record-stored-and-returned")
	case 1:
		_, ok := got.IP6Records[verifAddr16(rd1)]
		verifAssert(ok && len(e.IP6Records) == 1, "C17:single:aaaa-record-stored-and-returned")
	case 2:
		verifAssert(len(got.CNameRecords) == 1 && len(e.CNameRecords) == 1, "C17:single:cname-record-stored-and-returned")
		return
	}
	rd2 := verifBytes(n)
	verifAssume(verifBytesDiffer(rd1, rd2))
	e2, err := h.ProcessDNS(verifUDPFrame(s, 53, 40000, build(rd2)))
	verifAssert(err == nil, "C17:single:second-response-accepted")
	got = h.DNSFind("ab.cd")
	if kind == 0 {
		verifAssert(len(got.IP4Records) == 2 && len(e2.IP4Records) == 2, "C17:single:second-a-record-added-and-reported")
	} else {
		verifAssert(len(got.IP6Records) == 2 && len(e2.IP6Records) == 2, "C17:single:second-aaaa-record-added-and-reported")
	}
}

func verifBytesDiffer(a, b []byte) bool {
	d := byte(0)
	for i := range a {
		d |= a[i] ^ b[i]
	}
	return d != 0
}

// VerifC17ProcessDNSMalformed: a response with a pointer loop / truncated record is rejected and leaves the table alone.
func VerifC17ProcessDNSMalformed(kind int) {
	h, s := verifDNSHandler()
	m := verifDNSNew(verifU16(), 0x8180, 1, 1, 0, 0)
	m.labels(nil, 3, 2)
	m.root()
	m.u16(1)
	m.u16(1)
	switch kind {
	case 0: // owner is a pointer loop
		m.ptr(m.i)
	case 1: // owner = label + pointer to itself
		m.labels(nil, 2)
		m.ptr(m.i - 3)
	default:
		m.ptr(12)
	}
	at := m.rrHeader(1, verifU32())
	m.raw(verifBytes(4))
	m.rdEnd(at)
	b := m.bytes()
	if kind == 2 { // truncated anywhere after the header
		cut := 12 + verifChoose(len(b)-12)
		b = b[:cut:cut]
	}
	_, err := h.ProcessDNS(verifUDPFrame(s, 53, 40000, b))
	verifReach("processed")
	verifAssert(err != nil, "C17:process-dns:malformed-response-rejected")
	verifAssert(len(h.DNSTable) == 0, "C17:process-dns:rejected-response-stores-nothing")
}

// VerifC17MDNS: the host names extracted from a multicast DNS response: every A / AAAA record, in any section, yields
// (name without .local, address, source MAC); other records (TXT, NSEC, unknown types) in any section are skipped.
// sec: section of the address records (0 answer, 1 authority, 2 additional); extra: 0 none, 1 an unknown-type record
// before the address records, 2 NSEC (47) record before them.
func VerifC17MDNS(sec int, extra int) {
	h, s := verifDNSHandler()
	cnt := []int{0, 0, 0}
	cnt[sec] = 2
	if extra != 0 {
		cnt[sec]++
	}
	m := verifDNSNew(verifU16(), 0x8400, 0, cnt[0], cnt[1], cnt[2])
	if extra != 0 {
		for _, c := range m.labels(nil, 2) {
			verifAssume(c >= 'a' && c <= 'z')
		}
		m.fixed("local")
		m.root()
		t := uint16(47)
		if extra == 1 {
			t = 99
		}
		at := m.rrHeader(t, verifU32())
		m.raw(verifBytes(3))
		m.rdEnd(at)
	}
	first := m.i
	host := m.labels(nil, 4)
	for _, c := range host { // a host label: the name is compared in presentation form, keep it free of escapes
		verifAssume(c >= 'a' && c <= 'z')
	}
	m.fixed("local")
	m.root()
	ip4, ip6 := verifBytes(4), verifBytes(16)
	at := m.rrHeader(1, verifU32())
	m.raw(ip4)
	m.rdEnd(at)
	m.ptr(first)
	at = m.rrHeader(28, verifU32())
	m.raw(ip6)
	m.rdEnd(at)
	frame := verifUDPFrame(s, 5353, 5353, m.bytes())
	l4, l6, err := h.ProcessMDNS(frame)
	verifReach("processed")
	verifAssert(err == nil, "C17:mdns:well-formed-response-accepted")
	if err != nil {
		return
	}
	verifAssert(len(l4) == 1 && len(l6) == 1, "C17:mdns:one-entry-per-address-record")
	verifNoInputAlias(h, "C10:dns-handler-retains-packet-buffer-mdns")
	verifNoInputAlias(l4, "C10:mdns-entries-reference-packet-buffer")
	verifNoInputAlias(l6, "C10:mdns-entries-reference-packet-buffer")
	if len(l4) == 1 {
		verifAssert(verifStrEq(l4[0].NameEntry.Name, host), "C17:mdns:a-record-name")
		verifAssert(l4[0].Addr.IP == verifAddr4(ip4) && verifStrEq(string(l4[0].Addr.MAC), verifClientMAC), "C17:mdns:a-record-address")
	}
	if len(l6) == 1 {
		verifAssert(verifStrEq(l6[0].NameEntry.Name, host), "C17:mdns:aaaa-record-name")
		verifAssert(l6[0].Addr.IP == verifAddr16(ip6) && verifStrEq(string(l6[0].Addr.MAC), verifClientMAC), "C17:mdns:aaaa-record-address")
	}
}

// VerifC17NBNS: node status response with nn names (each unique or group): the extracted name is the first unique
// name of the array; responses with other answer types terminate; short > 0 drops the statistics and the last
// short bytes of the name array.
func VerifC17NBNS(nn int, rtype int, short int) {
	h, _ := verifDNSHandler()
	m := verifDNSNew(verifU16(), 0x8400, 0, 1, 0, 0)
	m.b[m.i] = 32
	m.i++
	enc := verifBytes(32) // first-level encoded NetBIOS name: 'A'..'P'
	for _, c := range enc {
		verifAssume(c >= 'A' && c <= 'P')
	}
	m.raw(enc)
	m.root()
	at := m.rrHeader(uint16(rtype), 0)
	m.b[m.i] = byte(nn)
	m.i++
	var names [][]byte
	var group []bool
	for i := 0; i < nn; i++ {
		k := 1 + verifChoose(3)
		nm := verifBytes(k)
		for _, c := range nm {
			verifAssume(c > ' ' && c < 0x7f)
		}
		names = append(names, nm)
		m.raw(nm)
		for j := k; j < 15; j++ {
			m.b[m.i] = ' '
			m.i++
		}
		m.b[m.i] = 0 // workstation service suffix
		m.i++
		fl := verifU16()
		group = append(group, fl&0x8000 != 0)
		m.u16(fl)
	}
	if short == 0 {
		m.raw(verifBytes(46)) // statistics
	} else {
		m.i -= short // name array cut short: NUM_NAMES claims more than the record holds
	}
	m.rdEnd(at)
	b := m.bytes()
	name, err := h.ProcessNBNS(nil, nil, b)
	verifReach("processed")
	if rtype != 0x21 {
		return
	}
	if short != 0 {
		verifAssert(name.Name == "", "C17:nbns:truncated-name-array-yields-no-name")
		return
	}
	verifAssert(err == nil, "C17:nbns:well-formed-response-accepted")
	want := []byte(nil)
	for i := range names {
		if !group[i] {
			want = names[i]
			break
		}
	}
	verifAssert(verifStrEq(name.Name, want), "C17:nbns:name-is-first-unique-name")
}
