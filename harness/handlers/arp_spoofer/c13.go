package arp_spoofer

import (
	"net"
	"net/netip"

	"github.com/irai/packet"
)

func verifMACDiff(a, b []byte) byte {
	return (a[0] ^ b[0]) | (a[1] ^ b[1]) | (a[2] ^ b[2]) | (a[3] ^ b[3]) | (a[4] ^ b[4]) | (a[5] ^ b[5])
}
func verifBE16(b []byte, i int) uint16 { return uint16(b[i])<<8 | uint16(b[i+1]) }
func verifAddr4(b []byte, i int) netip.Addr {
	return netip.AddrFrom4([4]byte{b[i], b[i+1], b[i+2], b[i+3]})
}

var verifRouterIP = netip.AddrFrom4([4]byte{192, 168, 0, 1})
var verifHostIP = netip.AddrFrom4([4]byte{192, 168, 0, 129})

// verifHandler: real session (NewSession with a recording connection, no sockets, background goroutines not run)
// and real handler; symbolic host / router MACs.
func verifHandler() (*Handler, *packet.Session, *verifConn, []byte, []byte) {
	hostMAC, routerMAC := verifBytes(6), verifBytes(6)
	verifAssume(hostMAC[0]&1 == 0 && routerMAC[0]&1 == 0 && verifMACDiff(hostMAC, routerMAC) != 0)
	nic := &packet.NICInfo{
		HomeLAN4:    netip.PrefixFrom(netip.AddrFrom4([4]byte{192, 168, 0, 0}), 24),
		HostAddr4:   packet.Addr{MAC: net.HardwareAddr(hostMAC), IP: verifHostIP},
		RouterAddr4: packet.Addr{MAC: net.HardwareAddr(routerMAC), IP: verifRouterIP},
	}
	conn := &verifConn{}
	s, err := packet.Config{Conn: conn, NICInfo: nic}.NewSession("")
	verifAssert(err == nil, "session-created")
	verifDropGoroutines()
	h, err := New(s)
	verifAssert(err == nil && h != nil, "handler-created")
	return h, s, conn, hostMAC, routerMAC
}

// verifHunt installs an arbitrary hunt list of k entries (distinct MACs, arbitrary LAN IPs).
func verifHunt(h *Handler, k int) [][]byte {
	var macs [][]byte
	for i := 0; i < k; i++ {
		m := verifBytes(6)
		verifAssume(m[0]&1 == 0)
		for _, o := range macs {
			verifAssume(verifMACDiff(m, o) != 0)
		}
		macs = append(macs, m)
		h.huntList[string(m)] = packet.Addr{MAC: net.HardwareAddr(m), IP: netip.AddrFrom4([4]byte{192, 168, 0, verifU8()})}
	}
	return macs
}

// verifARPFrame checks that f is a complete ARP frame sourced from the host NIC MAC and returns the ARP part.
func verifARPFrame(f []byte, hostMAC []byte, id string) []byte {
	verifAssert(len(f) == 42 && verifBE16(f, 12) == 0x0806, id+":complete-arp-frame")
	if len(f) != 42 {
		return nil
	}
	verifAssert(verifMACDiff(f[6:12], hostMAC) == 0, "C07:"+id+":ethernet-source-is-host-nic-mac")
	a := f[14:]
	verifAssert(verifBE16(a, 0) == 1 && verifBE16(a, 2) == 0x0800 && a[4] == 6 && a[5] == 4, "C07:"+id+":arp-header-well-formed")
	return a
}

// VerifC13Process: ProcessPacket on an arbitrary valid ARP frame (through the real Parse) from an arbitrary hunt
// list and DHCP-offer state: what is sent is exactly the specified router-spoof reply / probe reject, else nothing.
func VerifC13Process() {
	h, s, conn, hostMAC, _ := verifHandler()
	macs := verifHunt(h, verifChoose(3))
	// an outstanding DHCP offer for an arbitrary MAC
	offerMAC := verifBytes(6)
	offerIP := netip.AddrFrom4([4]byte{192, 168, 0, verifU8()})
	hasOffer := verifBool()
	if hasOffer {
		s.SetDHCPv4IPOffer(net.HardwareAddr(offerMAC), offerIP, packet.NameEntry{})
	}
	b := verifBytes(42)
	verifAssume(b[12] == 0x08 && b[13] == 0x06)
	frame, err := s.Parse(b)
	if err != nil || frame.PayloadID != packet.PayloadARP { // only frames Parse classifies as ARP are dispatched to the handler
		return
	}
	before := len(conn.frames)
	perr := h.ProcessPacket(frame)
	sent := conn.frames[before:]
	verifReach("processed")
	a := b[14:]
	valid := verifBE16(a, 0) == 1 && verifBE16(a, 2) == 0x0800 && a[4] == 6 && a[5] == 4
	if !valid {
		verifAssert(perr != nil && len(sent) == 0, "C13:invalid-arp-sends-nothing")
		return
	}
	op := verifBE16(a, 6)
	smac, sip, tip := a[8:14], verifAddr4(a, 14), verifAddr4(a, 24)
	hunted := false
	for _, m := range macs {
		if verifMACDiff(m, smac) == 0 {
			hunted = true
		}
	}
	linkLocal := sip.IsLinkLocalUnicast() || tip.IsLinkLocalUnicast()
	isReq := op == 1 && sip != tip && sip != packet.IPv4zero
	isProbe := op == 1 && sip != tip && sip == packet.IPv4zero
	wantSpoof := !linkLocal && isReq && hunted && tip == verifRouterIP
	wantReject := !linkLocal && isProbe && hasOffer && verifMACDiff(offerMAC, smac) == 0 && offerIP != tip &&
		netip.PrefixFrom(netip.AddrFrom4([4]byte{192, 168, 0, 0}), 24).Contains(tip)
	if !wantSpoof && !wantReject {
		verifAssert(len(sent) == 0, "C13:nothing-sent-unless-hunted-router-request-or-probe-reject")
		return
	}
	verifAssert(len(sent) == 1, "C13:exactly-one-reply")
	if len(sent) != 1 {
		return
	}
	r := verifARPFrame(sent[0], hostMAC, "reply")
	if r == nil {
		return
	}
	verifAssert(verifMACDiff(sent[0][0:6], smac) == 0 && verifBE16(r, 6) == 2, "C13:reply-unicast-to-the-asking-mac")
	verifAssert(verifMACDiff(r[8:14], hostMAC) == 0 && verifAddr4(r, 14) == tip, "C13:reply-binds-asked-ip-to-our-mac")
	verifAssert(verifMACDiff(r[18:24], smac) == 0, "C13:reply-target-is-the-asking-mac")
}

// VerifC13HuntOps: StartHunt / StopHunt semantics on an arbitrary hunt list.
func VerifC13HuntOps() {
	h, _, _, _, _ := verifHandler()
	macs := verifHunt(h, verifChoose(3))
	m := verifBytes(6)
	ip := netip.AddrFrom4([4]byte{192, 168, 0, verifU8()})
	known := -1
	for i, o := range macs {
		if verifMACDiff(m, o) == 0 {
			known = i
		}
	}
	n0 := len(h.huntList)
	switch verifChoose(4) {
	case 0: // rejects nil MAC and non-IPv4
		_, err := h.StartHunt(packet.Addr{MAC: nil, IP: ip})
		verifAssert(err != nil && len(h.huntList) == n0, "C13:starthunt-rejects-nil-mac")
		_, err = h.StartHunt(packet.Addr{MAC: net.HardwareAddr(m), IP: netip.AddrFrom16([16]byte{0xfe, 0x80, 15: 1})})
		verifAssert(err != nil && len(h.huntList) == n0, "C13:starthunt-rejects-non-ipv4")
	case 1: // idempotent per MAC
		_, err := h.StartHunt(packet.Addr{MAC: net.HardwareAddr(m), IP: ip})
		verifAssert(err == nil, "C13:starthunt-ok")
		n1 := len(h.huntList)
		verifAssert((known >= 0 && n1 == n0) || (known < 0 && n1 == n0+1), "C13:starthunt-adds-at-most-one-entry-per-mac")
		loops := verifPendingGoroutines()
		verifAssert((known >= 0 && loops == 0) || (known < 0 && loops == 1), "C13:one-spoof-loop-per-hunted-mac")
		_, err = h.StartHunt(packet.Addr{MAC: net.HardwareAddr(m), IP: ip})
		verifAssert(err == nil && len(h.huntList) == n1 && verifPendingGoroutines() == loops, "C13:starthunt-idempotent")
		verifDropGoroutines()
	case 2: // StopHunt removes exactly that MAC
		h.StopHunt(packet.Addr{MAC: net.HardwareAddr(m), IP: ip})
		if known >= 0 {
			verifAssert(len(h.huntList) == n0-1, "C13:stophunt-removes-the-mac")
		} else {
			verifAssert(len(h.huntList) == n0, "C13:stophunt-of-unknown-mac-changes-nothing")
		}
		_, still := h.huntList[string(m)]
		verifAssert(!still, "C13:stophunt-mac-gone")
		for i, o := range macs {
			if i != known {
				_, ok := h.huntList[string(o)]
				verifAssert(ok, "C13:stophunt-keeps-other-macs")
			}
		}
	case 3:
		verifAssert(h.IsHunting(ip) == func() bool {
			for _, v := range h.huntList {
				if v.IP == ip {
					return true
				}
			}
			return false
		}(), "C13:ishunting")
	}
	verifReach("processed")
}

// VerifC13Loop: the spoof loop of one hunted host, with StopHunt (mode 0) or Close (mode 1) arriving after `after`
// iterations (delivered from inside the connection's WriteTo, i.e. between two iterations).
func VerifC13Loop(mode int, after int) {
	h, _, conn, hostMAC, routerMAC := verifHandler()
	others := verifHunt(h, verifChoose(2))
	m := verifBytes(6)
	verifAssume(m[0]&1 == 0)
	for _, o := range others {
		verifAssume(verifMACDiff(m, o) != 0)
	}
	addr := packet.Addr{MAC: net.HardwareAddr(m), IP: netip.AddrFrom4([4]byte{192, 168, 0, verifU8()})}
	h.huntList[string(m)] = addr
	stoppedAt := -1
	conn.hook = func(frame []byte) {
		if stoppedAt < 0 && len(conn.frames) == after {
			if mode == 0 {
				h.StopHunt(addr)
			} else {
				h.Close()
			}
			stoppedAt = len(conn.frames)
		}
		verifAssert(len(conn.frames) <= after+1, "C13:loop-terminates-within-one-cycle-after-stop")
		verifAssume(len(conn.frames) <= after+1)
	}
	if after == 0 { // stopped before the loop's first iteration
		if mode == 0 {
			h.StopHunt(addr)
		} else {
			h.Close()
		}
		stoppedAt = 0
	}
	h.spoofLoop(addr)
	verifReach("processed")
	verifAssert(stoppedAt == after, "C13:loop-ran-until-stopped")
	for i, f := range conn.frames {
		a := verifARPFrame(f, hostMAC, "loop")
		if a == nil {
			continue
		}
		if i < after {
			// forged announcement: router IP bound to our MAC, sent to a hunted MAC
			toHunted := verifMACDiff(f[0:6], m) == 0
			for _, o := range others {
				if verifMACDiff(f[0:6], o) == 0 {
					toHunted = true
				}
			}
			verifAssert(toHunted, "C13:forged-announcement-only-to-hunted-macs")
			verifAssert(verifBE16(a, 6) == 1 && verifMACDiff(a[8:14], hostMAC) == 0 && verifAddr4(a, 14) == verifRouterIP && verifAddr4(a, 24) == verifRouterIP, "C13:announcement-binds-router-ip-to-our-mac")
		} else {
			// after StopHunt: one corrective packet restoring the router's real MAC, to the released host
			verifAssert(mode == 0, "C13:close-sends-nothing-more")
			verifAssert(verifMACDiff(f[0:6], m) == 0 && verifMACDiff(a[8:14], routerMAC) == 0 && verifAddr4(a, 14) == verifRouterIP, "C13:stophunt-restores-router-mac-at-the-target")
		}
	}
	if mode == 0 {
		verifAssert(len(conn.frames) == after+1, "C13:stophunt-sends-exactly-one-corrective-packet")
	} else {
		verifAssert(len(conn.frames) == after, "C13:close-sends-nothing-more")
	}
}

// VerifC07ARP: every ARP send function of the handler with arbitrary arguments: complete ARP frame, Ethernet
// source = host NIC MAC, ARP fields as requested.
func VerifC07ARP(which int) {
	h, _, conn, hostMAC, _ := verifHandler()
	dst := verifBytes(6)
	smac, tmac := verifBytes(6), verifBytes(6)
	sip := netip.AddrFrom4([4]byte{verifU8(), verifU8(), verifU8(), verifU8()})
	tip := netip.AddrFrom4([4]byte{verifU8(), verifU8(), verifU8(), verifU8()})
	sender, target := packet.Addr{MAC: net.HardwareAddr(smac), IP: sip}, packet.Addr{MAC: net.HardwareAddr(tmac), IP: tip}
	var err error
	wantOp := uint16(1)
	wantDst := dst
	wantSMAC, wantSIP, wantTMAC, wantTIP := smac, sip, tmac, tip
	bcast := []byte{0xff, 0xff, 0xff, 0xff, 0xff, 0xff}
	switch which {
	case 0:
		err = h.RequestRaw(net.HardwareAddr(dst), sender, target)
	case 1:
		err = h.Reply(net.HardwareAddr(dst), sender, target)
		wantOp = 2
	case 2:
		err = h.Request(tip)
		wantDst, wantSMAC, wantSIP, wantTMAC = bcast, hostMAC, verifHostIP, bcast
	case 3:
		err = h.RequestTo(net.HardwareAddr(dst), tip)
		wantSMAC, wantSIP, wantTMAC = hostMAC, verifHostIP, bcast
	case 4:
		err = h.Probe(tip)
		wantDst, wantSMAC, wantSIP, wantTMAC = bcast, hostMAC, packet.IPv4zero, []byte{0, 0, 0, 0, 0, 0}
	case 5:
		err = h.AnnounceTo(net.HardwareAddr(dst), tip)
		wantSMAC, wantSIP, wantTMAC = hostMAC, tip, bcast
	}
	verifAssert(err == nil && len(conn.frames) == 1, "C07:arp-handler:one-frame-sent")
	if len(conn.frames) != 1 {
		return
	}
	f := conn.frames[0]
	a := verifARPFrame(f, hostMAC, "arp-handler")
	if a == nil {
		return
	}
	verifAssert(verifMACDiff(f[0:6], wantDst) == 0, "C07:arp-handler:ethernet-destination-as-requested")
	verifAssert(verifBE16(a, 6) == wantOp, "C07:arp-handler:operation")
	verifAssert(verifMACDiff(a[8:14], wantSMAC) == 0 && verifAddr4(a, 14) == wantSIP && verifMACDiff(a[18:24], wantTMAC) == 0 && verifAddr4(a, 24) == wantTIP, "C07:arp-handler:addresses-as-requested")
	verifReach("processed")
}
