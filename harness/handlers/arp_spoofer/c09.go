package arp_spoofer

import (
	"net"
	"net/netip"
	"sync"
	"time"

	"github.com/irai/packet"
)

// C09 (thread mode, ARP handler): the spoof loop goroutine started by StartHunt runs concurrently with the packet
// loop's ProcessPacket and with control-API callers (StopHunt, StartHunt of another host, IsHunting, PrintTable,
// Close). The harness always ends with Close so that the loop can terminate (timers fire a bounded number of times).

type verifLockedConn struct {
	mu sync.Mutex
	n  int
}

func (c *verifLockedConn) WriteTo(b []byte, a net.Addr) (int, error) {
	c.mu.Lock()
	c.n++
	c.mu.Unlock()
	return len(b), nil
}
func (c *verifLockedConn) ReadFrom(b []byte) (int, net.Addr, error) { return 0, nil, nil }
func (c *verifLockedConn) Close() error                              { return nil }
func (c *verifLockedConn) LocalAddr() net.Addr                       { return nil }
func (c *verifLockedConn) SetDeadline(t time.Time) error             { return nil }
func (c *verifLockedConn) SetReadDeadline(t time.Time) error         { return nil }
func (c *verifLockedConn) SetWriteDeadline(t time.Time) error        { return nil }

func VerifC09ARP(op int, closeEarly int) {
	hostMAC, routerMAC := []byte{2, 0, 0, 0, 0, 1}, []byte{2, 0, 0, 0, 0, 2}
	nic := &packet.NICInfo{
		HomeLAN4:    netip.PrefixFrom(netip.AddrFrom4([4]byte{192, 168, 0, 0}), 24),
		HostAddr4:   packet.Addr{MAC: net.HardwareAddr(hostMAC), IP: verifHostIP},
		RouterAddr4: packet.Addr{MAC: net.HardwareAddr(routerMAC), IP: verifRouterIP},
	}
	s, err := packet.Config{Conn: &verifLockedConn{}, NICInfo: nic}.NewSession("")
	verifAssert(err == nil, "session-created")
	h, err := New(s)
	verifAssert(err == nil && h != nil, "handler-created")
	victim := packet.Addr{MAC: net.HardwareAddr{2, 0, 0, 0, 1, 1}, IP: netip.AddrFrom4([4]byte{192, 168, 0, 11})}
	other := packet.Addr{MAC: net.HardwareAddr{2, 0, 0, 0, 1, 2}, IP: netip.AddrFrom4([4]byte{192, 168, 0, 12})}
	// the victim asks who has the router address
	b := make([]byte, 42)
	copy(b[0:6], []byte{0xff, 0xff, 0xff, 0xff, 0xff, 0xff})
	copy(b[6:12], victim.MAC)
	b[12], b[13] = 0x08, 0x06
	copy(b[14:22], []byte{0, 1, 8, 0, 6, 4, 0, 1})
	copy(b[22:28], victim.MAC)
	copy(b[28:32], []byte{192, 168, 0, 11})
	copy(b[38:42], []byte{192, 168, 0, 1})
	frame, perr := s.Parse(b)
	verifAssert(perr == nil, "frame-parsed")

	h.StartHunt(victim) // starts the spoof loop goroutine
	var wg sync.WaitGroup
	wg.Add(1)
	go func() {
		defer wg.Done()
		switch op {
		case 0:
			h.ProcessPacket(frame)
		case 1:
			h.StopHunt(victim)
		case 2:
			h.StartHunt(other)
		case 3:
			_ = h.IsHunting(victim.IP)
		case 4:
			h.PrintTable()
		case 5:
			h.StopHunt(victim)
			h.StartHunt(victim)
		}
	}()
	if closeEarly != 0 {
		h.Close()
	}
	wg.Wait()
	h.Close()
	s.Close()
	verifReach("joined")
}
