#!/usr/bin/env python3
"""Writes seeded/<id>/meta.json from notes.md (first heading, 'what is needed' section) and the last seeds.sh output."""
import json, os, re, sys
res = {}
if len(sys.argv) > 1:
    for l in open(sys.argv[1]):
        m = re.match(r'(C\d+b?): (caught by (\S+)|MISSED by (\S+))', l)
        if m:
            if m.group(3):
                res[m.group(1)] = ('caught', m.group(3))
            elif m.group(1) not in res or res[m.group(1)][0] != 'caught':
                res[m.group(1)] = ('missed', m.group(4))
EXTRA = {
 'C06': 'patch.diff was written against the tree before the C09 lock-discipline fix (03732d8 changed the three call sites in Parse); patch_adapted.diff is the same change on the repaired tree',
 'C11': 'patch.diff is the seed adapted to the tree after the DHCP fixes (cdc5954 rewrote the condition the seed flattens)',
 'C12': 'the original seed (patch.diff: reboot/rebind ACKs an expired, freed lease) is neutralised by the genuine-defect repair c2e25ba (expired leases are now NAKed before the modified check); patch_adapted.diff applies but yields no violation - correctly, the property holds with it. The own mutant mutants/c12_nice_mode_no_segregation.patch exercises C12 instead and is caught',
 'C15': 'identical in effect to the own mutant mutants/c15_drop_fold.patch',
 'C20': 'patch.diff is the seed adapted to the tree after the fastlog fixes',
 'C12b': 'second C12 seed, produced on the repaired tree because the first one was neutralised by a fix; missed by the C12 quick check at first (the subnet-containment assertion carried only the C11 label; C11 caught it), caught by C12 after the assertion was registered under both properties',
 'C08b': 'missed by the C08 quick check at first (needs 9 option bytes, the arbitrary-bytes DHCP harness stopped at 6); caught after option templates (zero / short / long option lengths) were added',
 'C09b': 'missed by the C09 quick check at first: the composite operation SetDHCPv4IPOffer+DHCPv4IPOffer synchronises incidentally with DHCPv4Update in every non-preemptive schedule; caught after the two accessors were added as separate operations (the thorough tier, preemption 1, reaches it either way)',
 'C11b': 'missed by the C11 quick check at first (DISCOVER against a table holding another client\'s lease was thorough-only); caught after that job was added to the quick tier',
 'C15b': 'missed by the C15 quick check at first (headers were always fresh, checksum field zero); caught after the checksum field before completion was made arbitrary and a header completed twice was added',
 'C17b': 'second-round seed; missed by the C17 quick check at first (every harness message carried an A or CNAME record besides the AAAA record), caught after an AAAA-only shape and single-record handler scenarios were added',
 'C09': 'caught twice: by C05 (sequential purge step: self-deadlock on the leaked row lock when the sibling host is made offline in the same pass) and by C09 (thread mode: deadlock findings, replayed natively as hangs)',
}
for d in sorted(os.listdir('/verif/seeded')):
    nd = '/verif/seeded/' + d
    notes = open(nd + '/notes.md').read() if os.path.exists(nd + '/notes.md') else ''
    title = notes.split('\n', 1)[0].lstrip('# ').strip()
    need = ''
    m = re.search(r'##[^\n]*(needed|manifest|trigger)[^\n]*\n(.*?)(\n## |\Z)', notes, re.S | re.I)
    if m:
        need = ' '.join(m.group(2).split())[:900]
    patch = 'patch_adapted.diff' if os.path.exists(nd + '/patch_adapted.diff') else 'patch.diff'
    st, by = res.get(d, ('not run', d))
    meta = {
        'property': d.rstrip('b'),
        'summary': title,
        'what_it_needs_to_manifest': need,
        'produced_by': 'fresh sub-agent given only the property text and a scratch git worktree of /repo (nothing from /verif)',
        'patch': patch,
        'demo': 'demo_test.go (fails with the patch, passes without; the repository suite passes with the patch)',
        'what_i_ran': 'git -C /repo apply /verif/seeded/%s/%s ; ./check %s --tier quick (via tools/mutant.sh, evidence redirected) ; git -C /repo checkout -- .' % (d, patch, by),
        'result': ('caught by the %s quick check (VIOLATION with native replay)' % by) if st == 'caught' else ('no violation reported by %s' % by if st == 'missed' else 'not run'),
    }
    if d in EXTRA:
        meta['note'] = EXTRA[d]
    json.dump(meta, open(nd + '/meta.json', 'w'), indent=1)
    print(d, st, by)
