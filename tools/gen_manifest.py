#!/usr/bin/env python3
"""Regenerates /verif/MANIFEST.json from the table below (kept in one place so the
claimed / not-applicable lists stay current)."""
import json, os

CLAIMED = {
 # id: (level text, level note, design ref, technique)
 "C01": ("Bounded model checking by symbolic execution of the real go/ssa: for every byte string of length 0..1536, every capacity and every content, no panic / non-terminating loop / reslice beyond the visible length is reachable in Session.Parse, the Frame accessors and every zero-argument getter of every exported view type; violations come with a natively replayed input.",
         "Trusted: go/ssa construction, the gse executor semantics (intrinsics/stubs listed in the evidence), z3. Bounds: frames <= 1536 B, loops <= 64 (300) iterations, option-walking views restricted to short inputs (see evidence.bounds).",
         "DESIGN.md §4 C01", "bounded symbolic execution of go/ssa, SMT-decided obligations (z3/cvc5), native replay"),
 "C15": ("Bounded model checking: Checksum is shown equal to the RFC 1071 one's-complement checksum for every content and every length in the tier bound by induction on the length (base case + one SMT-discharged step per length, from the real SSA), cross-checked by direct equivalence for short lengths; IPv4 headers completed by SetPayload/AppendPayload sum to zero under an independent reference for every field value, payload length and stale content of the checksum field (fresh, reused and twice-completed headers).",
         "Trusted: go/ssa, gse semantics, z3/cvc5 (portfolio), the cut-point generalisation argument (unsat of the generalised query implies unsat of the original). Bound: lengths 0..128 quick / 0..1522 thorough. ICMP message completions are decided under C07.",
         "DESIGN.md §4 C15", "induction on length with cut-point generalisation over go/ssa terms, SMT (z3 fresh-context, cvc5/z3-int portfolio)"),
 "C02": ("Bounded model checking, differential: the real Session.Parse and the real field getters are executed symbolically next to an independent RFC reference decoder / RFC-position extractors; for every frame of length 0..1536 (all contents, so every EtherType, protocol, port pair and length field) PayloadID, MACs, IPs, ports, presence and offsets of the IPv4/IPv6/UDP/TCP views, payload and the error verdict are asserted equal by SMT on every path.",
         "Trusted: go/ssa, gse semantics, z3, and the reference decoder in harness/root/c02_ref.go (short, written from the RFCs and the documented table). Getter coverage: IP4, IP6, UDP, TCP, ARP, ICMP/ICMPEcho, DNS header, DHCP4 fixed fields.",
         "DESIGN.md §4 C02", "differential bounded symbolic execution (implementation vs RFC reference decoder), SMT equality per path"),
 "C20": ("Bounded model checking, differential: every fastlog scalar appender, MAC, IPv4/IPv6 (RFC 5952) rendering and three-field concatenation is executed symbolically from the real SSA with a symbolic cursor and arbitrary old buffer contents and compared byte for byte with reference renderers; array appenders are checked for staying inside the 2048-byte buffer with symbolic cursor and lengths up to 4096.",
         "Trusted: go/ssa, gse semantics, z3, reference renderers (validated natively against net/netip on 200000 addresses in ./check selftest). Value coverage per evidence.bounds (one non-constant IPv6 group / MAC byte / IPv4 octet at a time). View String()/FastLog renderers are outside the claim.",
         "DESIGN.md §4 C20", "differential bounded symbolic execution against reference renderers, SMT-decided buffer bounds"),
 "C03": ("Bounded model checking of encode/decode round trips: every encoder (Ethernet, IPv4, IPv6, UDP, ARP, ICMP echo, NDP NA/NS, DNS query, DHCPv4 with arbitrary options and order lists) is executed symbolically with all field values symbolic, symbolic payload lengths and symbolic buffer capacities; the result is decoded by the library's own views and by reference extraction at RFC positions and asserted equal; AppendPayload returns ErrPayloadTooBig exactly when the payload exceeds the remaining capacity (any out-of-capacity store is a panic obligation); composed Ether/IP/UDP frames are classified by the real Parse.",
         "Trusted: go/ssa, gse semantics, z3, reference extraction helpers. Bounds in evidence.bounds (DHCP option sets are small; all map iteration orders explored).",
         "DESIGN.md §4 C03", "bounded symbolic execution of encoders + decoders, SMT-decided round-trip equalities, layered arrays for symbolic-length payloads"),
 "C08": ("Bounded model checking of the payload-level decoders (DNS name/question/answer decoding, NDP options, hop-by-hop extensions, DHCP options, LLDP TLVs, 802.3/LLC processing) on arbitrary or field-corrupted, truncated inputs: every panic condition, every possible repetition of a loop state (non-termination) and every unwinding bound is an SMT obligation; violations are replayed natively (hangs by a watchdog). Handler level: the ICMPv6 and ICMPv4 handlers' ProcessPacket on every accepted frame with an arbitrary ICMP message of up to 24 / 16 (thorough 32) bytes, the DHCP handler's ProcessPacket on every DHCPv4 frame with arbitrary BOOTP fields and up to 5-6 arbitrary option bytes in both directions; ARP ProcessPacket on every valid ARP frame (C13), naming handlers on structured messages (C17).",
         "Trusted: go/ssa, gse semantics, z3. Partial: mDNS / NBNS / SSDP processing on unstructured bytes is not encoded (dnsmessage, net/http); DNS inputs are templates with one (quick) or two (thorough) arbitrary fields; buffer lengths are small (evidence.bounds).",
         "DESIGN.md §4 C08", "bounded symbolic execution with SMT-decided panic / loop-state-repetition obligations, index case-splitting"),
 "C16": ("Bounded model checking: (a) on every path of Parse over all frames of length 0..1536 each returned view aliases the caller's buffer (same backing object) at the reference decoder's offset and stays inside the frame; (b) for every well-formed frame from an already tracked online host (IPv4, IPv6 link-local, ARP) the reachability of every allocating SSA instruction inside Parse is an SMT query that must be unsat; a reachable site is replayed natively with the runtime's malloc counter.",
         "Trusted: go/ssa, gse semantics, z3. Allocation is decided at SSA level (heap Alloc in repository code, make, closures, boxing, growing append, string conversions, go, fmt.Errorf); the gc compiler's escape analysis is outside the model.",
         "DESIGN.md §4 C16", "bounded symbolic execution with provenance assertions and SMT-decided unreachability of allocation sites"),
 "C19": ("Bounded model checking of the echo waiter protocol: echoNotify from every waiter table of <= 3 entries, Parse on every ICMPv4/ICMPv6 frame up to 80 bytes with a pending waiter (completion iff the reference decoder sees a well-formed echo reply with that identifier), and ping/Ping6 against a programmable connection for every identifier-counter value (no reply, send failure, matching reply, foreign identifier, overlapping second ping): nil iff own reply, distinct identifiers, no waiter left behind. Thread mode: two concurrent pings and a packet-loop goroutine parsing the replies in either order, with 0, 1 or 2 timer firings per path: happens-before race check, distinct identifiers, both succeed when no timer fires, no waiter left behind.",
         "Trusted: go/ssa, gse semantics (channels/select in sequential mode: timer arm always enabled, closed wake-up channel enables its arm, all enabled arms explored; thread mode as in C09 for the concurrent scenario), z3.",
         "DESIGN.md §4 C19", "bounded symbolic execution with symbolic waiter tables / identifier counter, SMT-decided completion conditions"),
 "C04": ("Bounded model checking by induction: from every symbolic host/MAC-table state of the bounded shapes that satisfies the representation invariant, one step (Parse+Notify of an IPv4 / ARP / IPv6 frame with every header field symbolic, purge(now), DHCPv4Update) is executed from the real SSA and the post-state is compared with a reference transition model over (MAC, IP, online) triples: creation predicate, IPv4 supersession, re-binding of an address claimed by another MAC, offline / purge cut-offs, everything else unchanged.",
         "Trusted: go/ssa, gse semantics, z3, the reference transition model written in the harness, the invariant (assumed on the pre-state, asserted on the post-state by C05). Shapes: <= 2 MAC entries, <= 3 hosts (evidence.bounds).",
         "DESIGN.md §4 C04-C06", "inductive step by bounded symbolic execution from symbolic invariant states, SMT-decided transition specification"),
 "C05": ("Bounded model checking by induction: the table invariants (host indexed under its own IP, belongs to exactly the MAC entry that lists it and shares its MAC, entries unique per MAC, online host => online entry, index size = number of listed hosts, PrintTable self-check does not panic) are assumed on a symbolic pre-state and asserted after every step of the C04 harness family.",
         "Trusted: as C04. Capture/Release/SetDHCPv4IPOffer only touch MAC-entry scalars and are not stepped here; the quiescent points of concurrent executions are asserted by the C09 thread-mode harnesses.",
         "DESIGN.md §4 C04-C06", "inductive step by bounded symbolic execution: invariant preservation as SMT obligations"),
 "C06": ("Bounded model checking by induction: after every Parse+Notify / purge step from a clean (no pending notification) invariant state the drained channel is checked: repeat traffic notifies nothing; first sight or return from offline yields exactly one online notification, preceded by exactly one offline notification per superseded online IPv4 sibling; ageing yields exactly one offline notification; contents equal the tracked state; nothing stays pending.",
         "Trusted: as C04. Name-change notifications, channel overflow and liveness (eventual delivery) are outside the claim.",
         "DESIGN.md §4 C04-C06", "inductive step by bounded symbolic execution: notification contract asserted on the drained channel"),
 "C10": ("Bounded model checking of a provenance invariant: the packet buffer is a tagged object; after each step of the C04 harness family (Parse, Notify, DHCPv4Update) everything reachable from the session, and separately the NDP option structure and the DNS entry built by the decoders (what the ICMPv6 and naming handlers store), is walked and must not reference the tagged buffer. Exact per path; implies that scribbling over the buffer cannot change retained state.",
         "Trusted: go/ssa, gse semantics, z3. The handlers' retained state is walked too: ICMPv6 router table after every RA of the C14 harness, the naming handler's DNS table and the entries ProcessDNS / ProcessMDNS return, the DHCP lease table and the session after every message of the C11 step harness. SSDP/UPnP excluded.",
         "DESIGN.md §4 C10", "bounded symbolic execution with a heap provenance walk on every path"),
 "C09": ("Bounded-schedule symbolic execution (thread mode of gse) of the real Session code: two (thorough: also three) goroutines each run one operation of the supported pattern - the packet loop (Parse+Notify), purge, FindIP/GetHosts with row read locks, FindByMAC, FindMACEntry, Capture, Release, IsCaptured, IPAddrs, DHCP offer accessors, PrintTable, DHCPv4Update, Host.UpdateMDNSName, Close - from a table with symbolic online flags and ages. Context switches before every acquiring / blocking synchronisation operation within a preemption bound (quick 0, thorough 1); every heap access checked against a vector-clock happens-before relation (data races, predictive); no runnable thread = deadlock (RWMutex writer preference modelled); panics; C05 invariants and lock release asserted at quiescence. Handler level: the ARP and ICMPv6 spoof loops (started by StartHunt) against ProcessPacket, StartHunt / StopHunt / IsHunting / PrintTable and Close, every run ending with Close and no goroutine left blocked. DHCP handler ProcessPacket against MinuteTicker / PrintTable / StartHunt / StopHunt / Close and naming handler ProcessDNS against DNSFind / DNSExist / PrintDNSTable. PARTIAL: one operation per goroutine, small fixed scenarios per handler.",
         "Trusted: go/ssa, gse semantics incl. its model of sync (Mutex, RWMutex, WaitGroup, channels), z3. Races / deadlocks are reported only when the native replay (40 runs with real goroutines under the Go race detector / hang watchdog) confirms them; others are listed as unconfirmed.",
         "DESIGN.md §0.3, §4 C09", "bounded-schedule symbolic execution with happens-before race detection; native confirmation under go test -race"),
 "C07": ("Bounded model checking of the send paths: Session.arpRequest, ICMPv4/ICMPv6 echo, NDP NS/NA/RS/RA and the ARP handler's request/reply/probe/announcement functions (plus every frame emitted along the C13 harnesses) are executed symbolically with all arguments symbolic against a recording connection; each recorded frame must be complete, length-consistent, carry the requested addresses and fields, be sourced from the host NIC MAC, use hop limit 255 for link-local NDP and the 33:33 MAC where the library picks a multicast destination; IPv4 header and ICMPv4 checksums verify under an independent big-endian sum; ICMPv6 checksums by a structural obligation over an uninterpreted Checksum (C15 supplies Checksum == RFC 1071).",
         "Trusted: go/ssa, gse semantics, z3/cvc5, reference checks in harness/root/c07_send.go, the C15 result. Also covered: the frames emitted along the C11 (DHCP replies), C14 (NA spoofing) harnesses and the naming handler queries (NBNS, mDNS, LLMNR, SSDP). Not covered: DHCP client-side frames towards the real server, UDP checksums.",
         "DESIGN.md §4 C07", "bounded symbolic execution with a recording connection, SMT-decided reference decoding and checksum obligations"),
 "C13": ("Bounded model checking of the real ARP handler on a real Session (NewSession with a recording connection): for every valid ARP frame, every hunt list of <= 2 entries and every DHCP-offer state the frames emitted by ProcessPacket are exactly the specified router-spoof reply (asker hunted and asking for the router) or probe reject (different outstanding offer, probed address in the home LAN), else nothing; StartHunt rejects nil MAC / non-IPv4, is idempotent per MAC and starts one loop; StopHunt removes exactly that MAC; the spoof loop sends forged announcements only to hunted MACs, stops within one iteration after StopHunt with exactly one corrective request carrying the router's real MAC, and sends nothing after Close.",
         "Trusted: go/ssa, gse semantics (sequential: StopHunt/Close delivered at iteration boundaries, ticker arm always enabled), z3. Wall-clock period outside the claim.",
         "DESIGN.md §4 C13", "bounded symbolic execution of the handler from symbolic hunt-list states, SMT-decided emission specification"),
 "C11": ("Bounded model checking by induction on the real DHCP handler (real Session, recording connection, deliberately small /28 and /29 pools): from an arbitrary invariant lease table (empty or one arbitrary lease), every DISCOVER / REQUEST (selecting, renewing-rebinding, rebooting) / DECLINE / RELEASE message with symbolic client id, chaddr, xid, addresses and option values is processed; every OFFER/ACK address must lie inside the client's subnet, differ from our address, the router, network and broadcast addresses, from any address acknowledged to another client and from any address the session tracks for another MAC; the lease-table invariant (no address acknowledged twice, allocated leases usable) is re-established.",
         "Trusted: go/ssa, gse semantics, z3, the harness's reply decoder. Lease persistence off; attack burst disabled; address conflicts between a valid lease and a squatting device excluded (evidence.assumptions).",
         "DESIGN.md §4 C11-C12", "inductive step by bounded symbolic execution from symbolic lease-table states, SMT-decided reply and invariant obligations"),
 "C12": ("Bounded model checking by induction on the same DHCP step harness: every OFFER/ACK carries the subnet mask, router and DNS server of the subnet selected by the client's capture state, mask before router, our server identifier and the subnet's lease time, echoes xid and chaddr; an ACK confirms the offer of this transaction or the client's current unexpired lease and is never sent for a request selecting another server; a NAK carries no address; in all three operating modes.",
         "Trusted: as C11. The full NAK-versus-silence table is not asserted (only 'never ACK' conditions).",
         "DESIGN.md §4 C11-C12", "inductive step by bounded symbolic execution, SMT-decided reply contract"),
 "C14": ("Bounded model checking of the real ICMPv6 spoofing handler on a real Session: StartHunt/StopHunt validation and idempotence over every hunt list of <= 2 entries; the spoof loop sends forged NAs (source = router link-local, target-LLA option = host MAC, override set) only to hunted link-local hosts per known router, and stops with the corrective NA carrying the router's real MAC after StopHunt / nothing after Close; ProcessPacket of an arbitrary valid Router Advertisement (every subset of prefix / MTU / RDNSS / source-LLA / single-name DNSSL options, all values symbolic) records exactly what an independent decoder reads from the packet bytes (flags, lifetimes, prefix, MTU, DNS servers, search list, MAC) and keeps no pointer into the packet buffer.",
         "Trusted: go/ssa, gse semantics (sequential, StopHunt/Close at iteration boundaries), z3, the harness's reference RA decoder, Checksum uninterpreted (C15). Multi-label / multi-name DNSSL and route-information contents outside.",
         "DESIGN.md §4 C14", "bounded symbolic execution of the handler, SMT-decided differential against a reference RA decoder"),
 "C17": ("Bounded model checking of the real DNS decoders (DecodeQuestion, DNSEntry.DecodeAnswers, decodeName) and of the real naming handler (ProcessDNS / DNSFind through frames parsed by the real Session.Parse, ProcessMDNS, ProcessNBNS) on messages written by an independent builder with concrete structure and symbolic label, address, TTL and id bytes: question name, A / AAAA / CNAME / PTR records (compressed, pointer-chained, longest legal name, 127 labels, names beyond the scratch buffer) equal what the builder wrote; nine malformation classes and truncation at every offset are rejected with an error and terminate; mDNS A/AAAA extraction in every section with interleaved unknown / NSEC records; NBNS node status names; NameEntry.Merge and the five Host.Update*Name functions never erase, report a change exactly when an attribute changed and are idempotent, over symbolic attribute strings.",
         "Trusted: go/ssa, gse semantics, z3, the builder in harness/shared/dnsbuild.go. Message structure is concrete per shape (not arbitrary byte strings); golang.org/x/net/dns/dnsmessage is executed symbolically as part of the mDNS/NBNS paths.",
         "DESIGN.md §4 C17", "bounded symbolic execution, SMT-decided differential against an independent message builder; merge algebra over symbolic strings"),
 "C18": ("Bounded model checking of the real lease persistence code (saveConfig, loadConfig/loadByteArray, Config.New) with gopkg.in/yaml.v2 and the file system replaced by stated models: (a) restart: from every lease table of <= 2 leases (all state x subnet combinations, symbolic ids / MACs / addresses / expiry) the handler constructed from the saved file holds exactly the acknowledged bindings on the right subnet and acknowledges a renewal; (b) damaged file: for an ARBITRARY parsed document (sections missing, foreign LAN, 0..2 arbitrary lease records), an unparsable file or no file, construction does not panic and ends with usable subnets and only allocated, client-identified, home-subnet bindings that occur in the document. PARTIAL: the YAML text level (which truncations / substitutions parse and to what) is not encoded.",
         "Trusted: go/ssa, gse semantics, z3, the yaml / file models in harness/handlers/dhcp4_spoofer/c18.go (counterexamples are replayed with the real yaml package and real files).",
         "DESIGN.md §4 C18", "bounded symbolic execution with library models; arbitrary parsed document as over-approximation of file corruption"),
}

NOT_APPLICABLE = {
}

ALL = ["C%02d" % i for i in range(1, 21)]
PENDING_REASON = "check not built yet in this session (solver-based harness planned in DESIGN.md §4); not claimed until it runs clean"

def main():
    checks = []
    for pid in ALL:
        if pid in CLAIMED:
            text, note, ref, tech = CLAIMED[pid]
            checks.append({
                "property_id": pid,
                "quick_cmd": "./check %s --tier quick" % pid,
                "thorough_cmd": "./check %s --tier thorough" % pid,
                "evidence_file": "/verif/evidence/%s.json" % pid,
                "replay_cmd_template": "./check replay {path}",
                "engine": "gse",
                "level_claimed": {"category": "model_checking", "text": text, "design_ref": ref},
                "level_note": note,
                "technique": tech,
            })
    na = []
    for pid in ALL:
        if pid not in CLAIMED:
            na.append({"property_id": pid, "reason": NOT_APPLICABLE.get(pid, PENDING_REASON)})
    m = {
        "version": 1,
        "setup_cmd": "cd /verif/gse && GOFLAGS=-mod=mod GOPROXY=off GOSUMDB=off GOTOOLCHAIN=local go build -o gse . && cd /verif && ./check selftest",
        "hooks": {
            "guard": "verif",
            "enable": "no hooks are needed: harnesses are injected as in-package overlay files (go/packages Overlay for the encoder, `go test -overlay` for native replay); nothing is compiled into /repo",
            "baseline_off_cmd": "cd /repo && GOFLAGS=-mod=mod GOPROXY=off go test -vet=off -count=1 -timeout 25m ./...",
            "source_commits": [],
            "add_only": True,
        },
        "engines": [{
            "name": "gse",
            "path": "/verif/gse",
            "serves_properties": sorted(CLAIMED.keys()),
            "kind_free_text": "own symbolic executor for Go SSA (golang.org/x/tools/go/ssa v0.29.0): path-forking bounded symbolic execution, bit-vector term DAG, layered byte arrays, SMT-LIB2 to z3 4.8.12 (incremental) with z3 5.1.0 / cvc5 1.0.3 / integer rendering as one-shot portfolio; counterexamples replayed with go test -overlay",
        }],
        "checks": checks,
        "not_applicable": na,
        "notes": "All checks rebuild the encoding from /repo's working tree on every run. Known genuine defects are listed in /verif/known_findings.txt; see DESIGN.md.",
    }
    with open(os.path.join(os.path.dirname(__file__), "..", "MANIFEST.json"), "w") as f:
        json.dump(m, f, indent=1)
        f.write("\n")

if __name__ == "__main__":
    main()
