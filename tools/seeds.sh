#!/bin/bash
# usage: seeds.sh [ID...]  runs every kept seed (seeded/<id>/patch_adapted.diff if present, else patch.diff) against the
# quick check of its property and prints caught / MISSED. /repo is restored after each run.
cd /verif
ids="$@"
[ -z "$ids" ] && ids=$(ls seeded)
for id in $ids; do
  p=/verif/seeded/$id/patch.diff
  [ -f /verif/seeded/$id/patch_adapted.diff ] && p=/verif/seeded/$id/patch_adapted.diff
  prop=$id
  [ -f /verif/seeded/$id/check_with ] && prop=$(cat /verif/seeded/$id/check_with)
  out=$(./tools/mutant.sh $p $prop 2>&1)
  n=$(echo "$out" | grep -c "^VIOLATION")
  if [ "$n" -gt 0 ]; then echo "$id: caught by $prop ($n violations)"; else echo "$id: MISSED by $prop"; echo "$out" | tail -3; fi
done
