#!/bin/bash
# usage: mutant.sh <patch> <ID...>   applies the patch to /repo, runs the checks, restores /repo
set -u
patch="$1"; shift
git -C /repo apply "$patch" || { echo "patch does not apply"; exit 2; }
export GSE_EVIDENCE_DIR=$(mktemp -d)
for id in "$@"; do
  timeout 1500 /verif/check "$id" --tier quick 2>&1 | grep -v "^init" | grep "VIOLATION\|tier=\|INCONCLUSIVE\|ENGINE-ERROR\|VACUITY" | cut -c1-220
  echo "exit=$? ($id)"
done
rm -rf "$GSE_EVIDENCE_DIR"
git -C /repo checkout -- .
git -C /repo status --short
