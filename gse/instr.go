package main

import (
	"fmt"
	"go/constant"
	"go/token"
	"go/types"
	"math"
	"strings"

	"golang.org/x/tools/go/ssa"
)

func constUint(c *ssa.Const) uint64 {
	v := constant.ToInt(c.Value)
	if i, ok := constant.Int64Val(v); ok {
		return uint64(i)
	}
	u, _ := constant.Uint64Val(v)
	return u
}
func constBool(c *ssa.Const) bool     { return constant.BoolVal(c.Value) }
func constString(c *ssa.Const) string { return constant.StringVal(c.Value) }

// toIndex extends an index value to a 64-bit term according to its Go type.
func (e *Engine) toIndex(v Val, t types.Type) *Term {
	iv := v.(IntV)
	_, signed, _ := intWidth(t)
	return e.tb.Resize(iv.T, 64, signed)
}

func (e *Engine) nilCheck(st *State, p PtrV, pos token.Pos, what string) {
	e.oblige(st, e.tb.Bool(p.Obj != 0 || p.Fn != ""), "nil-dereference", pos, what)
}

func (e *Engine) exec(st *State, th *Thread, fr *Frame, in ssa.Instruction) {
	tb := e.tb
	switch x := in.(type) {
	case *ssa.DebugRef:
	case *ssa.Alloc:
		et := x.Type().(*types.Pointer).Elem()
		site := exprText(e.prog, x.Pos())
		if x.Heap && e.cfg.TrackAlloc && fr.fn.Pkg != nil && strings.HasPrefix(fr.fn.Pkg.Pkg.Path(), modPath) {
			// go/ssa's Heap flag is a conservative escape approximation; it is trusted for the
			// repository's own functions only (dependencies such as net/netip spill arrays the gc
			// compiler keeps on the stack)
			e.noteAlloc(st, fr, "new "+et.String(), x.Pos())
		}
		if n, ok := isByteArray(et); ok {
			o := st.newBytes(e, aZeroArr, tb.BV(uint64(n), 64), site)
			o.typ = et
			fr.regs[x] = PtrV{Obj: o.id, Idx: tb.BV(0, 64)}
			break
		}
		o := st.newVal(e, e.zero(st, et), site)
		o.typ = et
		fr.regs[x] = PtrV{Obj: o.id}
	case *ssa.Store:
		p := e.get(st, fr, x.Addr).(PtrV)
		e.nilCheck(st, p, x.Pos(), "store")
		e.storePtr(st, p, e.get(st, fr, x.Val))
	case *ssa.UnOp:
		v := e.get(st, fr, x.X)
		switch x.Op {
		case token.MUL:
			p := v.(PtrV)
			e.nilCheck(st, p, x.Pos(), "load "+x.X.Name())
			fr.regs[x] = e.loadPtr(st, p, x.Type())
		case token.NOT:
			fr.regs[x] = BoolV{tb.Not(v.(BoolV).T)}
		case token.SUB:
			if f, ok := v.(FloatV); ok {
				fr.regs[x] = FloatV{-f.F}
				break
			}
			fr.regs[x] = IntV{tb.Neg(v.(IntV).T)}
		case token.XOR:
			fr.regs[x] = IntV{tb.BVNot(v.(IntV).T)}
		case token.ARROW:
			fr.regs[x] = e.chanRecv(st, th, v.(ChanV), x.CommaOk, x.Type(), x.Pos())
		default:
			panic(engineErr("unop %s", x.Op))
		}
	case *ssa.BinOp:
		fr.regs[x] = e.binop(st, x.Op, e.get(st, fr, x.X), e.get(st, fr, x.Y), x.X.Type(), x.Y.Type(), x.Pos())
	case *ssa.ChangeType:
		fr.regs[x] = e.get(st, fr, x.X)
	case *ssa.ChangeInterface:
		fr.regs[x] = e.get(st, fr, x.X)
	case *ssa.Convert:
		fr.regs[x] = e.convert(st, fr, e.get(st, fr, x.X), x.X.Type(), x.Type(), x.Pos())
	case *ssa.MakeInterface:
		if e.cfg.TrackAlloc {
			switch x.X.Type().Underlying().(type) {
			case *types.Pointer, *types.Map, *types.Chan, *types.Signature:
			default:
				if _, isConst := x.X.(*ssa.Const); !isConst {
					e.noteAlloc(st, fr, "box "+x.X.Type().String(), x.Pos())
				}
			}
		}
		fr.regs[x] = IfaceV{T: x.X.Type(), V: e.get(st, fr, x.X)}
	case *ssa.Extract:
		fr.regs[x] = e.get(st, fr, x.Tuple).(TupleV)[x.Index]
	case *ssa.Field:
		sv, ok := e.get(st, fr, x.X).(StructV)
		if !ok {
			panic(engineErr("Field on %T", e.get(st, fr, x.X)))
		}
		fv := sv.F[x.Field]
		if ev, ok := fv.(EmbV); ok {
			n, _ := isByteArray(x.Type())
			fv = e.loadBytes(st, PtrV{Obj: ev.Obj, Idx: tb.BV(0, 64)}, n)
		}
		fr.regs[x] = fv
	case *ssa.FieldAddr:
		p := e.get(st, fr, x.X).(PtrV)
		st0 := x.X.Type().Underlying().(*types.Pointer).Elem().Underlying().(*types.Struct)
		e.nilCheck(st, p, x.Pos(), "field "+st0.Field(x.Field).Name())
		if p.Fn != "" {
			panic(engineErr("field of opaque pointer %s", p.Fn))
		}
		o := st.obj(p.Obj)
		if o.kind != okVal {
			panic(engineErr("FieldAddr into non-value object"))
		}
		np := PtrV{Obj: p.Obj, Path: copyPath(p.Path, x.Field)}
		if ev, ok := getPath(o.v, np.Path).(EmbV); ok {
			np = PtrV{Obj: ev.Obj, Idx: tb.BV(0, 64)}
		}
		fr.regs[x] = np
	case *ssa.Index:
		fr.regs[x] = e.indexVal(st, e.get(st, fr, x.X), e.get(st, fr, x.Index), x.Index.Type(), x.Pos())
	case *ssa.IndexAddr:
		fr.regs[x] = e.indexAddr(st, fr, x)
	case *ssa.Lookup:
		fr.regs[x] = e.lookup(st, fr, x)
	case *ssa.Slice:
		fr.regs[x] = e.slice(st, fr, x)
	case *ssa.SliceToArrayPointer:
		s := e.get(st, fr, x.X).(SliceV)
		n := x.Type().Underlying().(*types.Pointer).Elem().Underlying().(*types.Array).Len()
		e.oblige(st, tb.Cmp("bvule", tb.BV(uint64(n), 64), s.Len), "slice-to-array-length", x.Pos(), srcText(e.prog, x))
		if s.Obj == 0 {
			fr.regs[x] = PtrV{}
			break
		}
		if !e.sliceIsBytes(st, s) {
			panic(engineErr("SliceToArrayPointer on element slice"))
		}
		fr.regs[x] = PtrV{Obj: s.Obj, Idx: s.Off}
	case *ssa.MakeSlice:
		fr.regs[x] = e.makeSlice(st, fr, x.Type(), e.get(st, fr, x.Len), e.get(st, fr, x.Cap), x.Pos())
	case *ssa.MakeMap:
		if e.cfg.TrackAlloc {
			e.noteAlloc(st, fr, "make map", x.Pos())
		}
		o := st.newObj(e, okMap, exprText(e.prog, x.Pos()))
		o.typ = x.Type()
		fr.regs[x] = MapV{o.id}
	case *ssa.MakeChan:
		n := e.get(st, fr, x.Size).(IntV).T
		if !n.IsConst() {
			panic(engineErr("symbolic channel size"))
		}
		o := st.newObj(e, okChan, exprText(e.prog, x.Pos()))
		o.qcap = int(n.C)
		o.typ = x.Type()
		fr.regs[x] = ChanV{o.id}
	case *ssa.MakeClosure:
		if e.cfg.TrackAlloc {
			e.noteAlloc(st, fr, "closure", x.Pos())
		}
		var bind []Val
		for _, b := range x.Bindings {
			bind = append(bind, e.get(st, fr, b))
		}
		fr.regs[x] = FuncV{Fn: x.Fn.(*ssa.Function), Bind: bind}
	case *ssa.MapUpdate:
		m := e.get(st, fr, x.Map).(MapV)
		e.oblige(st, tb.Bool(m.Obj != 0), "nil-map-write", x.Pos(), "")
		e.mapUpdate(st, m.Obj, e.get(st, fr, x.Key), e.get(st, fr, x.Value))
	case *ssa.Range:
		fr.regs[x] = e.rangeInit(st, e.get(st, fr, x.X))
	case *ssa.Next:
		fr.regs[x] = e.rangeNext(st, e.get(st, fr, x.Iter).(PtrV), x)
	case *ssa.TypeAssert:
		fr.regs[x] = e.typeAssert(st, fr, x)
	case *ssa.Send:
		e.chanSend(st, th, e.get(st, fr, x.Chan).(ChanV), e.get(st, fr, x.X), x.Pos())
	case *ssa.Select:
		fr.regs[x] = e.selectStmt(st, th, fr, x)
	default:
		panic(engineErr("unsupported instruction %T: %s", in, in))
	}
}

// srcText: a position-independent description of an instruction for finding keys.
func srcText(prog *ssa.Program, in ssa.Instruction) string {
	// cheap description (finding keys use the source line at the instruction's position)
	if v, ok := in.(ssa.Value); ok {
		return fmt.Sprintf("%s (%T)", v.Name(), in)
	}
	return fmt.Sprintf("%T", in)
}

func (e *Engine) indexVal(st *State, av Val, iv Val, it types.Type, pos token.Pos) Val {
	tb := e.tb
	if sv, ok := av.(StrV); ok {
		return e.strIndex(st, sv, e.toIndex(iv, it), pos)
	}
	a, ok := av.(ArrV)
	if !ok {
		panic(engineErr("Index on %T", av))
	}
	idx := e.toIndex(iv, it)
	e.oblige(st, tb.Cmp("bvult", idx, tb.BV(uint64(len(a.E)), 64)), "index-out-of-range", pos, "array value index")
	if idx.IsConst() {
		return a.E[idx.C]
	}
	// symbolic index into an array value: ite chain for integers, else concretise
	if len(a.E) > 0 {
		if _, isInt := a.E[0].(IntV); isInt && len(a.E) <= 64 {
			r := a.E[len(a.E)-1].(IntV).T
			for i := len(a.E) - 2; i >= 0; i-- {
				r = tb.Ite(tb.Cmp("=", idx, tb.BV(uint64(i), 64)), a.E[i].(IntV).T, r)
			}
			return IntV{r}
		}
	}
	c := e.concretize(st, idx)
	return a.E[c]
}

func (e *Engine) indexAddr(st *State, fr *Frame, x *ssa.IndexAddr) Val {
	tb := e.tb
	idx := e.toIndex(e.get(st, fr, x.Index), x.Index.Type())
	switch b := e.get(st, fr, x.X).(type) {
	case SliceV:
		e.oblige(st, tb.Cmp("bvult", idx, b.Len), "index-out-of-range", x.Pos(), srcText(e.prog, x))
		if e.cfg.Stubs["concidx"] && !idx.IsConst() {
			// case-split small symbolic indices (keeps later index arithmetic concrete)
			idx = tb.BV(e.concretize(st, idx), 64)
		}
		if b.Obj == 0 {
			panic(pathDead{"index of nil slice"})
		}
		if e.sliceIsBytes(st, b) {
			return PtrV{Obj: b.Obj, Idx: tb.Bin("bvadd", b.Off, idx)}
		}
		off := e.concretize(st, b.Off)
		c := e.concretize(st, idx)
		p := PtrV{Obj: b.Obj, Path: copyPath(b.Base, int(off+c))}
		return e.redirectEmb(st, p)
	case PtrV:
		at := x.X.Type().Underlying().(*types.Pointer).Elem().Underlying().(*types.Array)
		e.nilCheck(st, b, x.Pos(), "array index")
		e.oblige(st, tb.Cmp("bvult", idx, tb.BV(uint64(at.Len()), 64)), "index-out-of-range", x.Pos(), srcText(e.prog, x))
		o := st.obj(b.Obj)
		if o.kind == okBytes {
			return PtrV{Obj: b.Obj, Idx: tb.Bin("bvadd", b.Idx, idx)}
		}
		c := e.concretize(st, idx)
		return e.redirectEmb(st, PtrV{Obj: b.Obj, Path: copyPath(b.Path, int(c))})
	}
	panic(engineErr("IndexAddr on %T", e.get(st, fr, x.X)))
}

func (e *Engine) redirectEmb(st *State, p PtrV) PtrV {
	if ev, ok := getPath(st.obj(p.Obj).v, p.Path).(EmbV); ok {
		return PtrV{Obj: ev.Obj, Idx: e.tb.BV(0, 64)}
	}
	return p
}

func (e *Engine) makeSlice(st *State, fr *Frame, t types.Type, lv, cv Val, pos token.Pos) Val {
	tb := e.tb
	n := lv.(IntV).T
	c := cv.(IntV).T
	n, c = tb.Resize(n, 64, true), tb.Resize(c, 64, true)
	e.oblige(st, tb.And(tb.Cmp("bvsle", tb.BV(0, 64), n), tb.Cmp("bvsle", n, c)), "makeslice-len-out-of-range", pos, "")
	if e.cfg.TrackAlloc {
		e.noteAlloc(st, fr, "make slice", pos)
	}
	et := t.Underlying().(*types.Slice).Elem()
	site := exprText(e.prog, pos)
	if isByteType(et) {
		o := st.newBytes(e, aZeroArr, c, site)
		return SliceV{Obj: o.id, Off: tb.BV(0, 64), Len: n, Cap: c}
	}
	cc := e.concretize(st, c)
	nn := e.concretize(st, n)
	if cc > 1<<16 {
		panic(engineErr("make of %d elements", cc))
	}
	av := ArrV{E: make([]Val, cc)}
	for i := range av.E {
		av.E[i] = e.zero(st, et)
	}
	o := st.newVal(e, av, site)
	return SliceV{Obj: o.id, Off: tb.BV(0, 64), Len: tb.BV(nn, 64), Cap: tb.BV(cc, 64)}
}

func (e *Engine) slice(st *State, fr *Frame, x *ssa.Slice) Val {
	tb := e.tb
	var lo, hi, mx *Term
	if x.Low != nil {
		lo = e.toIndex(e.get(st, fr, x.Low), x.Low.Type())
	}
	if x.High != nil {
		hi = e.toIndex(e.get(st, fr, x.High), x.High.Type())
	}
	if x.Max != nil {
		mx = e.toIndex(e.get(st, fr, x.Max), x.Max.Type())
	}
	txt := srcText(e.prog, x)
	if e.cfg.Stubs["concidx"] {
		if _, isStr := e.get(st, fr, x.X).(StrV); !isStr {
			// bounds obligations first (on the symbolic terms), then case-split
			if sv, ok := e.get(st, fr, x.X).(SliceV); ok {
				l0, h0, m0 := lo, hi, mx
				if l0 == nil {
					l0 = tb.BV(0, 64)
				}
				if h0 == nil {
					h0 = sv.Len
				}
				if m0 == nil {
					m0 = sv.Cap
				}
				e.oblige(st, tb.AndN(tb.Cmp("bvule", l0, h0), tb.Cmp("bvule", h0, m0), tb.Cmp("bvule", m0, sv.Cap)), "slice-bounds-out-of-range", x.Pos(), txt)
				if lo != nil && !lo.IsConst() {
					lo = tb.BV(e.concretize(st, lo), 64)
				}
				if hi != nil && !hi.IsConst() {
					hi = tb.BV(e.concretize(st, hi), 64)
				}
			}
		}
	}
	switch b := e.get(st, fr, x.X).(type) {
	case StrV:
		n := strLen(b)
		if lo == nil {
			lo = tb.BV(0, 64)
		}
		if hi == nil {
			hi = tb.BV(uint64(n), 64)
		}
		e.oblige(st, tb.And(tb.Cmp("bvule", lo, hi), tb.Cmp("bvule", hi, tb.BV(uint64(n), 64))), "slice-bounds-out-of-range", x.Pos(), txt)
		l, h := e.concretize(st, lo), e.concretize(st, hi)
		if b.Conc {
			return StrV{Conc: true, S: b.S[l:h]}
		}
		return e.normStr(StrV{B: b.B[l:h]})
	case SliceV:
		return e.resliced(st, b, lo, hi, mx, x.Pos(), txt)
	case PtrV:
		at := x.X.Type().Underlying().(*types.Pointer).Elem().Underlying().(*types.Array)
		e.nilCheck(st, b, x.Pos(), "slice of array pointer")
		n := tb.BV(uint64(at.Len()), 64)
		o := st.obj(b.Obj)
		var s SliceV
		if o.kind == okBytes {
			s = SliceV{Obj: b.Obj, Off: b.Idx, Len: n, Cap: n}
		} else {
			if ev, ok := getPath(o.v, b.Path).(EmbV); ok {
				s = SliceV{Obj: ev.Obj, Off: tb.BV(0, 64), Len: n, Cap: n}
			} else {
				s = SliceV{Obj: b.Obj, Base: b.Path, Off: tb.BV(0, 64), Len: n, Cap: n}
			}
		}
		return e.resliced(st, s, lo, hi, mx, x.Pos(), txt)
	}
	panic(engineErr("slice of %T", e.get(st, fr, x.X)))
}

func (e *Engine) resliced(st *State, b SliceV, lo, hi, mx *Term, pos token.Pos, txt string) Val {
	tb := e.tb
	explicitHi := hi != nil
	if lo == nil {
		lo = tb.BV(0, 64)
	}
	if hi == nil {
		hi = b.Len
	}
	if mx == nil {
		mx = b.Cap
	}
	safe := tb.AndN(tb.Cmp("bvule", lo, hi), tb.Cmp("bvule", hi, mx), tb.Cmp("bvule", mx, b.Cap))
	e.oblige(st, safe, "slice-bounds-out-of-range", pos, txt)
	if b.Obj != 0 && explicitHi {
		// capacity monitor: reslicing the caller's packet buffer beyond its visible length
		if o := st.obj(b.Obj); o.limit != nil {
			e.monitor(st, tb.Cmp("bvule", tb.Bin("bvadd", b.Off, hi), o.limit), "reslice-beyond-length", pos, txt)
		}
	}
	return SliceV{Obj: b.Obj, Base: b.Base, Off: tb.Bin("bvadd", b.Off, lo), Len: tb.Bin("bvsub", hi, lo), Cap: tb.Bin("bvsub", mx, lo)}
}

// ---------------------------------------------------------------- binop

func (e *Engine) binop(st *State, op token.Token, a, b Val, at, bt types.Type, pos token.Pos) Val {
	tb := e.tb
	if op == token.EQL || op == token.NEQ {
		var t *Term
		switch av := a.(type) {
		case IntV:
			t = tb.Cmp("=", av.T, b.(IntV).T)
		case SliceV:
			bv := b.(SliceV)
			if av.Obj != 0 && bv.Obj != 0 {
				panic(engineErr("slice == slice"))
			}
			t = tb.Bool(av.Obj == 0 && bv.Obj == 0)
		case FuncV:
			bv := b.(FuncV)
			t = tb.Bool(av.Fn == nil && bv.Fn == nil)
		case FloatV:
			t = tb.Bool(av.F == b.(FloatV).F)
		default:
			t = e.eq(a, b)
		}
		if op == token.NEQ {
			t = tb.Not(t)
		}
		return BoolV{t}
	}
	switch av := a.(type) {
	case BoolV:
		bv := b.(BoolV)
		switch op {
		case token.AND, token.LAND:
			return BoolV{tb.And(av.T, bv.T)}
		case token.OR, token.LOR:
			return BoolV{tb.Or(av.T, bv.T)}
		}
	case StrV:
		bv := b.(StrV)
		switch op {
		case token.ADD:
			if av.Conc && bv.Conc {
				return StrV{Conc: true, S: av.S + bv.S}
			}
			return StrV{B: append(append([]*Term{}, e.strBytes(av)...), e.strBytes(bv)...)}
		case token.LSS, token.GTR, token.LEQ, token.GEQ:
			if av.Conc && bv.Conc {
				var r bool
				switch op {
				case token.LSS:
					r = av.S < bv.S
				case token.GTR:
					r = av.S > bv.S
				case token.LEQ:
					r = av.S <= bv.S
				case token.GEQ:
					r = av.S >= bv.S
				}
				return BoolV{tb.Bool(r)}
			}
			panic(engineErr("ordering of symbolic strings"))
		}
	case FloatV:
		bv := b.(FloatV)
		switch op {
		case token.ADD:
			return FloatV{av.F + bv.F}
		case token.SUB:
			return FloatV{av.F - bv.F}
		case token.MUL:
			return FloatV{av.F * bv.F}
		case token.QUO:
			return FloatV{av.F / bv.F}
		case token.LSS:
			return BoolV{tb.Bool(av.F < bv.F)}
		case token.GTR:
			return BoolV{tb.Bool(av.F > bv.F)}
		case token.LEQ:
			return BoolV{tb.Bool(av.F <= bv.F)}
		case token.GEQ:
			return BoolV{tb.Bool(av.F >= bv.F)}
		}
	case IntV:
		bv, ok := b.(IntV)
		if !ok {
			panic(engineErr("binop %s on int and %T", op, b))
		}
		_, s, _ := intWidth(at)
		x, y := av.T, bv.T
		if op == token.SHL || op == token.SHR {
			// Go: shift count is unsigned (or non-negative); counts >= width give 0 / sign fill
			_, ys, _ := intWidth(bt)
			if ys {
				e.oblige(st, tb.Cmp("bvsle", tb.BV(0, y.W), y), "negative-shift", pos, "")
			}
			if y.W < x.W {
				y = tb.ZExt(y, x.W)
			} else if y.W > x.W {
				big := tb.Cmp("bvule", tb.BV(uint64(x.W), y.W), y)
				y = tb.Ite(big, tb.BV(uint64(x.W), x.W), tb.Extract(y, x.W-1, 0))
			}
			if op == token.SHL {
				return IntV{tb.Bin("bvshl", x, y)}
			}
			if s {
				return IntV{tb.Bin("bvashr", x, y)}
			}
			return IntV{tb.Bin("bvlshr", x, y)}
		}
		if x.W != y.W {
			panic(engineErr("binop %s width mismatch %d/%d", op, x.W, y.W))
		}
		switch op {
		case token.ADD:
			return IntV{tb.Bin("bvadd", x, y)}
		case token.SUB:
			return IntV{tb.Bin("bvsub", x, y)}
		case token.MUL:
			return IntV{tb.Bin("bvmul", x, y)}
		case token.AND:
			return IntV{tb.Bin("bvand", x, y)}
		case token.OR:
			return IntV{tb.Bin("bvor", x, y)}
		case token.XOR:
			return IntV{tb.Bin("bvxor", x, y)}
		case token.AND_NOT:
			return IntV{tb.Bin("bvand", x, tb.BVNot(y))}
		case token.QUO, token.REM:
			e.oblige(st, tb.Not(tb.Cmp("=", y, tb.BV(0, y.W))), "integer-divide-by-zero", pos, "")
			o := map[[2]bool]string{{true, true}: "bvsdiv", {true, false}: "bvudiv", {false, true}: "bvsrem", {false, false}: "bvurem"}[[2]bool{op == token.QUO, s}]
			return IntV{tb.Bin(o, x, y)}
		case token.LSS:
			if s {
				return BoolV{tb.Cmp("bvslt", x, y)}
			}
			return BoolV{tb.Cmp("bvult", x, y)}
		case token.LEQ:
			if s {
				return BoolV{tb.Cmp("bvsle", x, y)}
			}
			return BoolV{tb.Cmp("bvule", x, y)}
		case token.GTR:
			if s {
				return BoolV{tb.Cmp("bvslt", y, x)}
			}
			return BoolV{tb.Cmp("bvult", y, x)}
		case token.GEQ:
			if s {
				return BoolV{tb.Cmp("bvsle", y, x)}
			}
			return BoolV{tb.Cmp("bvule", y, x)}
		}
	}
	panic(engineErr("binop %s on %T", op, a))
}

// ---------------------------------------------------------------- convert

func (e *Engine) convert(st *State, fr *Frame, v Val, from, to types.Type, pos token.Pos) Val {
	tb := e.tb
	fu, tu := from.Underlying(), to.Underlying()
	if fw, fs, ok := intWidth(from); ok {
		_ = fw
		if tw, _, ok2 := intWidth(to); ok2 {
			return IntV{tb.Resize(v.(IntV).T, tw, fs)}
		}
		if tbasic, ok2 := tu.(*types.Basic); ok2 {
			if tbasic.Info()&types.IsFloat != 0 {
				iv := v.(IntV).T
				if !iv.IsConst() {
					return OpaqueV{"float from symbolic int"}
				}
				if fs {
					return FloatV{float64(sext(iv.C, iv.W))}
				}
				return FloatV{float64(iv.C)}
			}
			if tbasic.Info()&types.IsString != 0 {
				iv := v.(IntV).T
				c := e.concretize(st, iv)
				return StrV{Conc: true, S: string(rune(c))}
			}
			if tbasic.Kind() == types.UnsafePointer {
				return v
			}
		}
	}
	if fb, ok := fu.(*types.Basic); ok {
		if fb.Info()&types.IsFloat != 0 {
			f, isF := v.(FloatV)
			if tw, ts, ok2 := intWidth(to); ok2 {
				if !isF {
					return OpaqueV{"int from opaque float"}
				}
				if ts {
					return IntV{tb.BV(uint64(int64(f.F)), tw)}
				}
				return IntV{tb.BV(uint64(f.F), tw)}
			}
			if tb2, ok2 := tu.(*types.Basic); ok2 && tb2.Info()&types.IsFloat != 0 {
				if isF && tb2.Kind() == types.Float32 {
					return FloatV{float64(float32(f.F))}
				}
				return v
			}
		}
		if fb.Info()&types.IsString != 0 {
			s := v.(StrV)
			if ts, ok := tu.(*types.Slice); ok {
				if isByteType(ts.Elem()) {
					if e.cfg.TrackAlloc && strLen(s) > 0 {
						e.noteAlloc(st, fr, "[]byte(string)", pos)
					}
					return e.bytesFromStr(st, s, exprText(e.prog, pos))
				}
				// []rune
				if s.Conc {
					rs := []rune(s.S)
					av := ArrV{E: make([]Val, len(rs))}
					for i, r := range rs {
						av.E[i] = IntV{tb.BV(uint64(r), 32)}
					}
					o := st.newVal(e, av, "[]rune")
					n := tb.BV(uint64(len(rs)), 64)
					return SliceV{Obj: o.id, Off: tb.BV(0, 64), Len: n, Cap: n}
				}
				panic(engineErr("[]rune of symbolic string"))
			}
			if tb2, ok := tu.(*types.Basic); ok && tb2.Info()&types.IsString != 0 {
				return v
			}
		}
		if fb.Kind() == types.UnsafePointer {
			return v
		}
	}
	if fsl, ok := fu.(*types.Slice); ok {
		if tb2, ok2 := tu.(*types.Basic); ok2 && tb2.Info()&types.IsString != 0 {
			s := v.(SliceV)
			if isByteType(fsl.Elem()) {
				if e.cfg.TrackAlloc {
					e.noteAlloc(st, fr, "string([]byte)", pos)
				}
				return e.strFromBytes(st, s)
			}
			// string([]rune)
			n := e.concretize(st, s.Len)
			var sb strings.Builder
			for i := uint64(0); i < n; i++ {
				p := e.elemPtr(st, s, tb.BV(i, 64))
				r := e.loadPtr(st, p, fsl.Elem()).(IntV).T
				sb.WriteRune(rune(e.concretize(st, r)))
			}
			return StrV{Conc: true, S: sb.String()}
		}
		if _, ok2 := tu.(*types.Slice); ok2 {
			return v
		}
	}
	if _, ok := fu.(*types.Pointer); ok {
		return v
	}
	panic(engineErr("convert %s -> %s", from, to))
}

func (e *Engine) strFromBytes(st *State, s SliceV) StrV {
	n := e.concretize(st, s.Len)
	if n > 4096 {
		panic(engineErr("string of %d bytes", n))
	}
	if n == 0 {
		return StrV{Conc: true}
	}
	b := make([]*Term, n)
	for i := uint64(0); i < n; i++ {
		b[i] = e.readByte(st, s, e.tb.BV(i, 64))
	}
	return e.normStr(StrV{B: b})
}

func (e *Engine) bytesFromStr(st *State, s StrV, site string) SliceV {
	tb := e.tb
	bs := e.strBytes(s)
	n := tb.BV(uint64(len(bs)), 64)
	arr := aZeroArr
	for i, t := range bs {
		arr = e.arrStore(arr, tb.BV(uint64(i), 64), t)
	}
	o := st.newBytes(e, arr, n, site)
	return SliceV{Obj: o.id, Off: tb.BV(0, 64), Len: n, Cap: n}
}

// ---------------------------------------------------------------- type assert

func (e *Engine) implements(t types.Type, it *types.Interface) bool {
	return types.Implements(t, it)
}

func (e *Engine) typeAssert(st *State, fr *Frame, x *ssa.TypeAssert) Val {
	iv := e.get(st, fr, x.X).(IfaceV)
	ok := false
	var res Val
	if it, isIface := x.AssertedType.Underlying().(*types.Interface); isIface {
		ok = iv.T != nil && e.implements(iv.T, it)
		res = iv
	} else {
		ok = iv.T != nil && types.Identical(iv.T, x.AssertedType)
		res = iv.V
	}
	if x.CommaOk {
		if !ok {
			res = e.zero(st, x.AssertedType)
		}
		return TupleV{res, BoolV{e.tb.Bool(ok)}}
	}
	e.oblige(st, e.tb.Bool(ok), "type-assertion-failed", x.Pos(), x.AssertedType.String())
	return res
}

// ---------------------------------------------------------------- builtins

func (e *Engine) builtin(st *State, fr *Frame, bi *ssa.Builtin, args []Val, cc *ssa.CallCommon, pos token.Pos) Val {
	tb := e.tb
	switch bi.Name() {
	case "len":
		switch v := args[0].(type) {
		case SliceV:
			return IntV{v.Len}
		case StrV:
			return IntV{tb.BV(uint64(strLen(v)), 64)}
		case MapV:
			if v.Obj == 0 {
				return IntV{tb.BV(0, 64)}
			}
			return IntV{tb.BV(uint64(len(st.obj(v.Obj).ents)), 64)}
		case ChanV:
			if v.Obj == 0 {
				return IntV{tb.BV(0, 64)}
			}
			return IntV{tb.BV(uint64(len(st.obj(v.Obj).q)), 64)}
		case PtrV: // pointer to array
			at := cc.Args[0].Type().Underlying().(*types.Pointer).Elem().Underlying().(*types.Array)
			return IntV{tb.BV(uint64(at.Len()), 64)}
		case ArrV:
			return IntV{tb.BV(uint64(len(v.E)), 64)}
		}
	case "cap":
		switch v := args[0].(type) {
		case SliceV:
			return IntV{v.Cap}
		case ChanV:
			if v.Obj == 0 {
				return IntV{tb.BV(0, 64)}
			}
			return IntV{tb.BV(uint64(st.obj(v.Obj).qcap), 64)}
		case PtrV:
			at := cc.Args[0].Type().Underlying().(*types.Pointer).Elem().Underlying().(*types.Array)
			return IntV{tb.BV(uint64(at.Len()), 64)}
		}
	case "copy":
		dst := args[0].(SliceV)
		var src SliceV
		switch s := args[1].(type) {
		case SliceV:
			src = s
		case StrV:
			src = e.bytesFromStr(st, s, "copy-from-string")
		}
		return e.copySlice(st, dst, src)
	case "append":
		return e.appendSlice(st, fr, args[0].(SliceV), args[1], cc.Args[0].Type(), pos)
	case "delete":
		m := args[0].(MapV)
		if m.Obj != 0 {
			e.mapDelete(st, m.Obj, args[1])
		}
		return nil
	case "clear":
		switch v := args[0].(type) {
		case MapV:
			if v.Obj != 0 {
				st.mut(v.Obj).ents = nil
			}
		case SliceV:
			if v.Obj == 0 {
				return nil
			}
			if e.sliceIsBytes(st, v) {
				d := st.mut(v.Obj)
				d.arr = e.arrCopy(d.arr, v.Off, aZeroArr, tb.BV(0, 64), v.Len)
				return nil
			}
			n, off := e.concretize(st, v.Len), e.concretize(st, v.Off)
			et := cc.Args[0].Type().Underlying().(*types.Slice).Elem()
			d := st.mut(v.Obj)
			dv := getPath(d.v, v.Base).(ArrV)
			ne := append([]Val{}, dv.E...)
			for i := uint64(0); i < n; i++ {
				ne[off+i] = e.zero(st, et)
			}
			d.v = setPath(d.v, v.Base, ArrV{ne})
		}
		return nil
	case "close":
		c := args[0].(ChanV)
		e.oblige(st, tb.Bool(c.Obj != 0), "close-of-nil-channel", pos, "")
		o := st.obj(c.Obj)
		e.oblige(st, tb.Bool(!o.closed), "close-of-closed-channel", pos, "")
		e.chanClose(st, c)
		return nil
	case "panic":
		e.oblige(st, tb.ff, "explicit-panic", pos, "panic builtin")
		return nil
	case "recover":
		return IfaceV{}
	case "print", "println":
		return nil
	case "min", "max":
		a, b := args[0].(IntV).T, args[1].(IntV).T
		_, s, _ := intWidth(cc.Args[0].Type())
		op := "bvult"
		if s {
			op = "bvslt"
		}
		lt := tb.Cmp(op, a, b)
		if bi.Name() == "min" {
			return IntV{tb.Ite(lt, a, b)}
		}
		return IntV{tb.Ite(lt, b, a)}
	case "ssa:wrapnilchk":
		return args[0]
	case "SliceData":
		s := args[0].(SliceV)
		if s.Obj == 0 {
			return PtrV{}
		}
		if e.sliceIsBytes(st, s) {
			return PtrV{Obj: s.Obj, Idx: s.Off}
		}
		return PtrV{Obj: s.Obj, Path: copyPath(s.Base, int(e.concretize(st, s.Off)))}
	case "StringData":
		s := args[0].(StrV)
		bs := e.bytesFromStr(st, s, "StringData")
		return PtrV{Obj: bs.Obj, Idx: tb.BV(0, 64)}
	case "String":
		p := args[0].(PtrV)
		n := tb.Resize(args[1].(IntV).T, 64, true)
		if p.Obj == 0 {
			return StrV{Conc: true}
		}
		return e.strFromBytes(st, SliceV{Obj: p.Obj, Off: p.Idx, Len: n, Cap: n})
	case "Slice":
		p := args[0].(PtrV)
		n := tb.Resize(args[1].(IntV).T, 64, true)
		if p.Obj == 0 {
			return SliceV{Off: tb.BV(0, 64), Len: tb.BV(0, 64), Cap: tb.BV(0, 64)}
		}
		return SliceV{Obj: p.Obj, Off: p.Idx, Len: n, Cap: n}
	}
	panic(engineErr("builtin %s on %T", bi.Name(), args[0]))
}

func (e *Engine) umin(a, b *Term) *Term {
	if a == b {
		return a
	}
	if a.IsConst() && b.IsConst() {
		if a.C < b.C {
			return a
		}
		return b
	}
	return e.tb.Ite(e.tb.Cmp("bvult", a, b), a, b)
}

func (e *Engine) copySlice(st *State, dst, src SliceV) Val {
	tb := e.tb
	n := e.umin(dst.Len, src.Len)
	if dst.Obj == 0 || src.Obj == 0 {
		return IntV{n}
	}
	if e.sliceIsBytes(st, dst) {
		if !e.sliceIsBytes(st, src) {
			panic(engineErr("copy bytes <- elements"))
		}
		if !n.IsConst() {
			n = e.unique(st, n)
		}
		if n.IsConst() && n.C == 0 {
			return IntV{n}
		}
		e.access(st, PtrV{Obj: src.Obj, Idx: src.Off}, false)
		e.access(st, PtrV{Obj: dst.Obj, Idx: dst.Off}, true)
		srcArr := st.obj(src.Obj).arr
		d := st.mut(dst.Obj)
		d.arr = e.arrCopy(d.arr, dst.Off, srcArr, src.Off, n)
		return IntV{n}
	}
	// element slices: concrete geometry
	cn := e.concretize(st, n)
	so, do := e.concretize(st, src.Off), e.concretize(st, dst.Off)
	if cn == 0 {
		return IntV{tb.BV(0, 64)}
	}
	sv := getPath(st.obj(src.Obj).v, src.Base).(ArrV)
	tmp := append([]Val{}, sv.E[so:so+cn]...)
	d := st.mut(dst.Obj)
	dv := getPath(d.v, dst.Base).(ArrV)
	ne := append([]Val{}, dv.E...)
	copy(ne[do:], tmp)
	d.v = setPath(d.v, dst.Base, ArrV{ne})
	return IntV{tb.BV(cn, 64)}
}

func (e *Engine) appendSlice(st *State, fr *Frame, a SliceV, bval Val, t types.Type, pos token.Pos) Val {
	tb := e.tb
	var b SliceV
	switch x := bval.(type) {
	case SliceV:
		b = x
	case StrV:
		b = e.bytesFromStr(st, x, "append-string")
	}
	et := t.Underlying().(*types.Slice).Elem()
	if isByteType(et) {
		if b.Len.IsConst() && b.Len.C == 0 {
			return a
		}
		newLen := tb.Bin("bvadd", a.Len, b.Len)
		fits := tb.Cmp("bvule", newLen, a.Cap)
		if a.Obj != 0 && e.decide(st, fits) {
			// in place
			if b.Obj != 0 {
				srcArr := st.obj(b.Obj).arr
				d := st.mut(a.Obj)
				d.arr = e.arrCopy(d.arr, tb.Bin("bvadd", a.Off, a.Len), srcArr, b.Off, b.Len)
			}
			return SliceV{Obj: a.Obj, Off: a.Off, Len: newLen, Cap: a.Cap}
		}
		if e.cfg.TrackAlloc {
			e.noteAlloc(st, fr, "append grows", pos)
		}
		// grow: new object; capacity chosen as exactly the new length (Go's growth factor is unspecified)
		arr := aZeroArr
		if a.Obj != 0 {
			arr = e.arrCopy(arr, tb.BV(0, 64), st.obj(a.Obj).arr, a.Off, a.Len)
		}
		if b.Obj != 0 {
			arr = e.arrCopy(arr, a.Len, st.obj(b.Obj).arr, b.Off, b.Len)
		}
		o := st.newBytes(e, arr, newLen, exprText(e.prog, pos))
		return SliceV{Obj: o.id, Off: tb.BV(0, 64), Len: newLen, Cap: newLen}
	}
	// element slices
	bl := e.concretize(st, b.Len)
	if bl == 0 {
		return a
	}
	al, ac, ao := e.concretize(st, a.Len), e.concretize(st, a.Cap), uint64(0)
	bo := e.concretize(st, b.Off)
	bvals := append([]Val{}, getPath(st.obj(b.Obj).v, b.Base).(ArrV).E[bo:bo+bl]...)
	if a.Obj != 0 {
		ao = e.concretize(st, a.Off)
	}
	if a.Obj != 0 && al+bl <= ac {
		d := st.mut(a.Obj)
		dv := getPath(d.v, a.Base).(ArrV)
		ne := append([]Val{}, dv.E...)
		copy(ne[ao+al:], bvals)
		d.v = setPath(d.v, a.Base, ArrV{ne})
		return SliceV{Obj: a.Obj, Base: a.Base, Off: a.Off, Len: tb.BV(al+bl, 64), Cap: a.Cap}
	}
	if e.cfg.TrackAlloc {
		e.noteAlloc(st, fr, "append grows", pos)
	}
	var el []Val
	if a.Obj != 0 {
		el = append(el, getPath(st.obj(a.Obj).v, a.Base).(ArrV).E[ao:ao+al]...)
	}
	el = append(el, bvals...)
	// spare capacity like the runtime (doubling), filled with zero values
	nc := len(el)
	if uint64(nc) < 2*ac {
		nc = int(2 * ac)
	}
	for len(el) < nc {
		el = append(el, e.zero(st, et))
	}
	o := st.newVal(e, ArrV{el}, exprText(e.prog, pos))
	return SliceV{Obj: o.id, Off: tb.BV(0, 64), Len: tb.BV(al+bl, 64), Cap: tb.BV(uint64(nc), 64)}
}

func floatBits(f float64) uint64 { return math.Float64bits(f) }

var _ = fmt.Sprintf
