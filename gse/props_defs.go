package main

import "fmt"

func cfg(maxLoop, wall int) Config {
	return Config{MaxLoop: maxLoop, MaxWall: wall, Stubs: map[string]bool{}}
}

// per-view length bounds for view types whose accessors loop over the input
var viewMaxN = map[string][2]int{ // quick, thorough
	"ICMP6RouterSolicitation":  {32, 40},
	"ICMP6RouterAdvertisement": {32, 40},
	"LLDP":                     {64, 1536},
	"HopByHopExtensionHeader":  {14, 18},
	"DHCP4":                    {244, 246},
	"ICMP4Redirect":            {72, 264},
}

func init() {
	register(&Prop{
		ID:        "C01",
		Technique: "bounded symbolic execution of go/ssa with SMT-decided panic, loop-state and provenance obligations",
		Jobs: func(tier string) []Job {
			var jobs []Job
			for _, tr := range []int64{0, 1} {
				jobs = append(jobs, Job{Pkg: "root", Func: "VerifC01Parse", Args: []int64{tr}, SplitN: 7, Cfg: cfg(64, 900), Reach: []string{"parsed"}})
			}
			names, _ := viewJobNames()
			for _, n := range names {
				t := n[len("VerifC01View_"):]
				maxN := int64(1536)
				loop := 64
				if b, ok := viewMaxN[t]; ok {
					maxN = int64(b[0])
					if tier == "thorough" {
						maxN = int64(b[1])
					}
					loop = 300
				}
				jobs = append(jobs, Job{Pkg: "root", Func: n, Args: []int64{maxN}, Cfg: cfg(loop, 900), Reach: []string{"valid"}})
			}
			return jobs
		},
		Bounds: func(tier string) map[string]string {
			b := map[string]string{
				"Session.Parse":   "all byte strings of length 0..1536, all capacities length..1600, all contents; empty tables and one pre-existing tracked host; home LAN 192.168.0.0/24, symbolic host/router MAC",
				"view types":      "all exported []byte view types with an IsValid method found in the current source; every exported zero-argument value-receiver method (String/FastLog/Set*/Append* excluded); view length 0..1536, capacity ..1600",
				"loop unwinding":  "64 iterations per loop activation (300 for the looping view types); exceeding it is reported as inconclusive",
			}
			for k, v := range viewMaxN {
				i := 0
				if tier == "thorough" {
					i = 1
				}
				b["view "+k] = fmt.Sprintf("length 0..%d (accessors loop over options/TLVs)", v[i])
			}
			return b
		},
		Assumptions: []string{
			"stubs: fastlog logging calls have empty bodies (arguments still evaluated), FindManufacturer returns \"\", sync primitives are no-ops, time.Now returns an arbitrary non-decreasing clock",
			"go/ssa (x/tools v0.29.0) construction and the gse executor semantics are trusted; counterexamples are replayed natively before being reported",
			"capacity independence is decided as: no reslice of the caller's buffer ever extends beyond its length (sufficient condition)",
		},
		Outside: []string{"frames longer than 1536 bytes", "host tables with more than one pre-existing host (C04/C05)", "String/FastLog renderers (C20)"},
	})
}

func init() {
	register(&Prop{
		ID:        "C15",
		Technique: "induction on length over the real SSA of Checksum with cut-point generalisation; each step one SMT query (z3, cvc5/z3-int portfolio for the header completions)",
		Jobs: func(tier string) []Job {
			max := 128
			if tier == "thorough" {
				max = 1522
			}
			c := Config{MaxLoop: 2000, MaxWall: 1500, MaxSteps: 60000000, Stubs: map[string]bool{}}
			jobs := []Job{{Pkg: "root", Func: "VerifC15Base", Cfg: c, Reach: []string{"done"}}}
			chunk := (max/2/14 + 1) * 2
			for lo := 0; lo < max; lo += chunk {
				hi := lo + chunk
				if hi > max {
					hi = max
				}
				jobs = append(jobs, Job{Pkg: "root", Func: "VerifC15Step", Args: []int64{int64(lo), int64(hi)}, Cfg: c, Reach: []string{"done"}})
				jobs = append(jobs, Job{Pkg: "root", Func: "VerifC15RefStep", Args: []int64{int64(lo), int64(hi)}, Cfg: c, Reach: []string{"done"}})
			}
			dmax := 6
			if tier == "thorough" {
				dmax = 12
			}
			for L := 0; L <= dmax; L++ {
				jobs = append(jobs, Job{Pkg: "root", Func: "VerifC15Direct", Args: []int64{int64(L)}, Cfg: c, Reach: []string{"done"}})
			}
			jobs = append(jobs, Job{Pkg: "root", Func: "VerifC15IP4Header", Args: []int64{0}, Cfg: c, Reach: []string{"done"}})
			jobs = append(jobs, Job{Pkg: "root", Func: "VerifC15IP4Header", Args: []int64{1}, Cfg: c, Reach: []string{"done"}})
			return jobs
		},
		Bounds: func(tier string) map[string]string {
			max := "128"
			d := "6"
			if tier == "thorough" {
				max, d = "1522", "12"
			}
			return map[string]string{
				"Checksum == RFC 1071": "every length 0.." + max + " (even and odd), every content: base case + one inductive step per length",
				"direct equivalence":   "every length 0.." + d + ", every content, against a textbook big-endian reference",
				"IPv4 header":          "every ttl, protocol, source/destination address, payload length 0..1480 and content; SetPayload and AppendPayload",
			}
		},
		Assumptions: []string{
			"the reference is defined by the RFC 1071 recurrence (un-complement, add big-endian word with end-around carry, complement); the textbook loop is shown to satisfy the same recurrence (VerifC15RefStep) and to agree directly for short lengths",
			"cut-point generalisation replaces the shared accumulator by a fresh bounded variable; unsat of the generalised query implies unsat of the original; sat is re-checked ungeneralised",
			"ICMPv4/ICMPv6 message completions by the send functions are decided under C07",
		},
		Outside: []string{"lengths above the tier bound; the 32-bit accumulator can wrap from 65537 words on (far beyond any Ethernet frame)"},
	})
}

func init() {
	getters := []string{"VerifC02GetIP4", "VerifC02GetIP6", "VerifC02GetUDP", "VerifC02GetTCP", "VerifC02GetARP", "VerifC02GetICMP", "VerifC02GetDNS", "VerifC02GetDHCP4"}
	register(&Prop{
		ID:        "C02",
		Technique: "differential symbolic execution: real Parse / getters vs an RFC reference decoder executed side by side, equality asserted by SMT on every path",
		Jobs: func(tier string) []Job {
			jobs := []Job{{Pkg: "root", Func: "VerifC02Parse", SplitN: 7, Cfg: cfg(64, 900), Reach: []string{"parsed"}}}
			for _, g := range getters {
				jobs = append(jobs, Job{Pkg: "root", Func: g, Cfg: cfg(64, 600), Reach: []string{"valid"}})
			}
			return jobs
		},
		Bounds: func(tier string) map[string]string {
			return map[string]string{
				"Session.Parse vs reference": "all byte strings of length 0..1536, all capacities, all contents (every EtherType, IP protocol, port pair, length field); symbolic host/router MAC; empty tables",
				"getters":                    "IP4 (15), IP6 (10), UDP (6), TCP (18), ARP (9), ICMP/ICMPEcho (9), DNS header (13), DHCP4 fixed fields (13, view length 0..244): view length 0..1536, all contents, IsValid()==nil assumed",
			}
		},
		Assumptions: []string{
			"the reference decoder (harness/root/c02_ref.go) is written from RFC 791/8200/768/9293/826/792/4443 and the documented EtherType / protocol / UDP-port precedence table; view and payload lengths run to the end of the frame (library documentation), trailing padding is not required to be trimmed",
			"IPv4 consistency demanded by the reference: IHL>=20, TotalLen>=IHL, frame covers TotalLen; IPv6: PayloadLen+40 == remaining length (library's documented strict rule)",
			"stubs as in C01",
		},
		Outside: []string{"VLAN decapsulation and IPv6 extension-header chains (not in the documented table)", "getters of NDP/option views (C14 decodes RA options differentially)", "frames > 1536 bytes"},
	})
}
