package main

import "fmt"

func cfg(maxLoop, wall int) Config {
	return Config{MaxLoop: maxLoop, MaxWall: wall, Stubs: map[string]bool{}}
}

// per-view length bounds for view types whose accessors loop over the input
var viewMaxN = map[string][2]int{ // quick, thorough
	"ICMP6RouterSolicitation":  {32, 40},
	"ICMP6RouterAdvertisement": {32, 40},
	"LLDP":                     {64, 1536},
	"HopByHopExtensionHeader":  {14, 18},
	"DHCP4":                    {244, 246},
	"ICMP4Redirect":            {72, 264},
}

func init() {
	register(&Prop{
		ID:        "C01",
		Technique: "bounded symbolic execution of go/ssa with SMT-decided panic, loop-state and provenance obligations",
		Jobs: func(tier string) []Job {
			var jobs []Job
			for _, tr := range []int64{0, 1} {
				jobs = append(jobs, Job{Pkg: "root", Func: "VerifC01Parse", Args: []int64{tr}, SplitN: 7, Cfg: cfg(64, 900), Reach: []string{"parsed"}})
			}
			names, _ := viewJobNames()
			for _, n := range names {
				t := n[len("VerifC01View_"):]
				maxN := int64(1536)
				loop := 64
				if b, ok := viewMaxN[t]; ok {
					maxN = int64(b[0])
					if tier == "thorough" {
						maxN = int64(b[1])
					}
					loop = 300
				}
				jobs = append(jobs, Job{Pkg: "root", Func: n, Args: []int64{maxN}, Cfg: cfg(loop, 900), Reach: []string{"valid"}})
			}
			return jobs
		},
		Bounds: func(tier string) map[string]string {
			b := map[string]string{
				"Session.Parse":   "all byte strings of length 0..1536, all capacities length..1600, all contents; empty tables and one pre-existing tracked host; home LAN 192.168.0.0/24, symbolic host/router MAC",
				"view types":      "all exported []byte view types with an IsValid method found in the current source; every exported zero-argument value-receiver method (String/FastLog/Set*/Append* excluded); view length 0..1536, capacity ..1600",
				"loop unwinding":  "64 iterations per loop activation (300 for the looping view types); exceeding it is reported as inconclusive",
			}
			for k, v := range viewMaxN {
				i := 0
				if tier == "thorough" {
					i = 1
				}
				b["view "+k] = fmt.Sprintf("length 0..%d (accessors loop over options/TLVs)", v[i])
			}
			return b
		},
		Assumptions: []string{
			"stubs: fastlog logging calls have empty bodies (arguments still evaluated), FindManufacturer returns \"\", sync primitives are no-ops, time.Now returns an arbitrary non-decreasing clock",
			"go/ssa (x/tools v0.29.0) construction and the gse executor semantics are trusted; counterexamples are replayed natively before being reported",
			"capacity independence is decided as: no reslice of the caller's buffer ever extends beyond its length (sufficient condition)",
		},
		Outside: []string{"frames longer than 1536 bytes", "host tables with more than one pre-existing host (C04/C05)", "String/FastLog renderers (C20)"},
	})
}
