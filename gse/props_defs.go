package main

import "fmt"

func cfg(maxLoop, wall int) Config {
	return Config{MaxLoop: maxLoop, MaxWall: wall, Stubs: map[string]bool{}}
}

// per-view length bounds for view types whose accessors loop over the input
var viewMaxN = map[string][2]int{ // quick, thorough
	"ICMP6RouterSolicitation":  {32, 39},
	"ICMP6RouterAdvertisement": {32, 39},
	"LLDP":                     {64, 1536},
	"HopByHopExtensionHeader":  {14, 17},
	"DHCP4":                    {244, 246},
	"ICMP4Redirect":            {72, 264},
}

func init() {
	register(&Prop{
		ID:        "C01",
		Technique: "bounded symbolic execution of go/ssa with SMT-decided panic, loop-state and provenance obligations",
		Jobs: func(tier string) []Job {
			var jobs []Job
			for _, tr := range []int64{0, 1} {
				jobs = append(jobs, Job{Pkg: "root", Func: "VerifC01Parse", Args: []int64{tr}, SplitN: 7, Cfg: cfg(64, 900), Reach: []string{"parsed"}})
			}
			names, _ := viewJobNames()
			for _, n := range names {
				t := n[len("VerifC01View_"):]
				maxN := int64(1536)
				loop := 64
				if b, ok := viewMaxN[t]; ok {
					maxN = int64(b[0])
					if tier == "thorough" {
						maxN = int64(b[1])
					}
					loop = 300
				}
				jobs = append(jobs, Job{Pkg: "root", Func: n, Args: []int64{maxN}, Cfg: cfg(loop, 900), Reach: []string{"valid"}})
			}
			la := int64(24)
			if tier == "thorough" {
				la = 40
			}
			jobs = append(jobs, Job{Pkg: "root", Func: "VerifC01LLDPArgs", Args: []int64{la}, Cfg: cfg(300, 900), Reach: []string{"valid"}})
			return jobs
		},
		Bounds: func(tier string) map[string]string {
			b := map[string]string{
				"Session.Parse":   "all byte strings of length 0..1536, all capacities length..1600, all contents; empty tables and one pre-existing tracked host; home LAN 192.168.0.0/24, symbolic host/router MAC",
				"view types":      "all exported []byte view types with an IsValid method found in the current source; every exported zero-argument value-receiver method (String/FastLog/Set*/Append* excluded); view length 0..1536, capacity ..1600",
				"LLDP accessors with arguments": "GetPDU(t) for every t in 0..127, Type(t), Capability(v) on LLDP views of length 0..24 (thorough 40)",
				"loop unwinding":  "64 iterations per loop activation (300 for the looping view types); exceeding it is reported as inconclusive",
			}
			for k, v := range viewMaxN {
				i := 0
				if tier == "thorough" {
					i = 1
				}
				b["view "+k] = fmt.Sprintf("length 0..%d (accessors loop over options/TLVs)", v[i])
			}
			return b
		},
		Assumptions: []string{
			"stubs: fastlog logging calls have empty bodies (arguments still evaluated), FindManufacturer returns \"\", sync primitives are no-ops, time.Now returns an arbitrary non-decreasing clock",
			"go/ssa (x/tools v0.29.0) construction and the gse executor semantics are trusted; counterexamples are replayed natively before being reported",
			"capacity independence is decided as: no reslice of the caller's buffer ever extends beyond its length (sufficient condition)",
		},
		Outside: []string{"frames longer than 1536 bytes", "host tables with more than one pre-existing host (C04/C05)", "String/FastLog renderers (C20)"},
	})
}

func init() {
	register(&Prop{
		ID:        "C15",
		Technique: "induction on length over the real SSA of Checksum with cut-point generalisation; each step one SMT query (z3, cvc5/z3-int portfolio for the header completions)",
		Jobs: func(tier string) []Job {
			max := 128
			if tier == "thorough" {
				max = 1522
			}
			c := Config{MaxLoop: 2000, MaxWall: 1500, MaxSteps: 60000000, Stubs: map[string]bool{}}
			jobs := []Job{{Pkg: "root", Func: "VerifC15Base", Cfg: c, Reach: []string{"done"}}}
			chunk := (max/2/14 + 1) * 2
			for lo := 0; lo < max; lo += chunk {
				hi := lo + chunk
				if hi > max {
					hi = max
				}
				jobs = append(jobs, Job{Pkg: "root", Func: "VerifC15Step", Args: []int64{int64(lo), int64(hi)}, Cfg: c, Reach: []string{"done"}})
				jobs = append(jobs, Job{Pkg: "root", Func: "VerifC15RefStep", Args: []int64{int64(lo), int64(hi)}, Cfg: c, Reach: []string{"done"}})
			}
			dmax := 6
			if tier == "thorough" {
				dmax = 12
			}
			for L := 0; L <= dmax; L++ {
				jobs = append(jobs, Job{Pkg: "root", Func: "VerifC15Direct", Args: []int64{int64(L)}, Cfg: c, Reach: []string{"done"}})
			}
			jobs = append(jobs, Job{Pkg: "root", Func: "VerifC15IP4Header", Args: []int64{0}, Cfg: c, Reach: []string{"done"}})
			jobs = append(jobs, Job{Pkg: "root", Func: "VerifC15IP4Header", Args: []int64{1}, Cfg: c, Reach: []string{"done"}})
			jobs = append(jobs, Job{Pkg: "root", Func: "VerifC15IP4Header", Args: []int64{2}, Cfg: c, Reach: []string{"done"}})
			return jobs
		},
		Bounds: func(tier string) map[string]string {
			max := "128"
			d := "6"
			if tier == "thorough" {
				max, d = "1522", "12"
			}
			return map[string]string{
				"Checksum == RFC 1071": "every length 0.." + max + " (even and odd), every content: base case + one inductive step per length",
				"direct equivalence":   "every length 0.." + d + ", every content, against a textbook big-endian reference",
				"IPv4 header":          "every ttl, protocol, source/destination address, payload length 0..1480 and content, every stale value of the checksum field before completion; SetPayload, AppendPayload, and SetPayload on an already completed header",
			}
		},
		Assumptions: []string{
			"the reference is defined by the RFC 1071 recurrence (un-complement, add big-endian word with end-around carry, complement); the textbook loop is shown to satisfy the same recurrence (VerifC15RefStep) and to agree directly for short lengths",
			"cut-point generalisation replaces the shared accumulator by a fresh bounded variable; unsat of the generalised query implies unsat of the original; sat is re-checked ungeneralised",
			"ICMPv4/ICMPv6 message completions by the send functions are decided under C07",
		},
		Outside: []string{"lengths above the tier bound; the 32-bit accumulator can wrap from 65537 words on (far beyond any Ethernet frame)"},
	})
}

func init() {
	getters := []string{"VerifC02GetIP4", "VerifC02GetIP6", "VerifC02GetUDP", "VerifC02GetTCP", "VerifC02GetARP", "VerifC02GetICMP", "VerifC02GetDNS", "VerifC02GetDHCP4", "VerifC02GetLLDP"}
	register(&Prop{
		ID:        "C02",
		Technique: "differential symbolic execution: real Parse / getters vs an RFC reference decoder executed side by side, equality asserted by SMT on every path",
		Jobs: func(tier string) []Job {
			jobs := []Job{{Pkg: "root", Func: "VerifC02Parse", SplitN: 7, Cfg: cfg(64, 900), Reach: []string{"parsed"}}}
			for _, g := range getters {
				jobs = append(jobs, Job{Pkg: "root", Func: g, Cfg: cfg(64, 600), Reach: []string{"valid"}})
			}
			return jobs
		},
		Bounds: func(tier string) map[string]string {
			return map[string]string{
				"Session.Parse vs reference": "all byte strings of length 0..1536, all capacities, all contents (every EtherType, IP protocol, port pair, length field); symbolic host/router MAC; empty tables",
				"getters":                    "IP4 (15), IP6 (10), UDP (6), TCP (18), ARP (9), ICMP/ICMPEcho (9), DNS header (13), DHCP4 fixed fields (13, view length 0..244), LLDP TLV getters (ChassisID, PortID, GetPDU; 9-bit TLV length): view length 0..1536, all contents, IsValid()==nil assumed",
			}
		},
		Assumptions: []string{
			"the reference decoder (harness/root/c02_ref.go) is written from RFC 791/8200/768/9293/826/792/4443 and the documented EtherType / protocol / UDP-port precedence table; view and payload lengths run to the end of the frame (library documentation), trailing padding is not required to be trimmed",
			"IPv4 consistency demanded by the reference: IHL>=20, TotalLen>=IHL, frame covers TotalLen; IPv6: PayloadLen+40 == remaining length (library's documented strict rule)",
			"stubs as in C01",
		},
		Outside: []string{"VLAN decapsulation and IPv6 extension-header chains (not in the documented table)", "getters of NDP/option views (C14 decodes RA options differentially)", "frames > 1536 bytes"},
	})
}

func init() {
	fl := func(maxLoop, wall int) Config {
		return Config{MaxLoop: maxLoop, MaxWall: wall, Stubs: map[string]bool{"nofastlog": true}}
	}
	register(&Prop{
		ID:        "C20",
		Technique: "differential bounded symbolic execution of the fastlog appenders against reference renderers (RFC 5952, decimal, hex), buffer-bound obligations by SMT",
		Jobs: func(tier string) []Job {
			r := []string{"done"}
			jobs := []Job{
				{Pkg: "fastlog", Func: "VerifC20Bool", Cfg: fl(64, 300), Reach: r},
				{Pkg: "fastlog", Func: "VerifC20Hex", Cfg: fl(64, 300), Reach: r},
				{Pkg: "fastlog", Func: "VerifC20MACNil", Cfg: fl(64, 300), Reach: r},
				{Pkg: "fastlog", Func: "VerifC20Uint", Args: []int64{8}, Cfg: fl(64, 300), Reach: r},
				{Pkg: "fastlog", Func: "VerifC20Uint", Args: []int64{16}, Cfg: fl(64, 300), Reach: r},
				{Pkg: "fastlog", Func: "VerifC20Uint", Args: []int64{32}, Cfg: fl(64, 300), Reach: r},
				{Pkg: "fastlog", Func: "VerifC20String", Cfg: fl(64, 300), Reach: r},
				{Pkg: "fastlog", Func: "VerifC20Msg", Cfg: fl(64, 300), Reach: r},
				{Pkg: "fastlog", Func: "VerifC20Concat", Cfg: fl(64, 300), Reach: r},
				{Pkg: "fastlog", Func: "VerifC20IP6Zero", Cfg: fl(64, 300), Reach: r},
				{Pkg: "fastlog", Func: "VerifC20IP6Layout", SplitN: 256, Cfg: fl(64, 300)},
				{Pkg: "fastlog", Func: "VerifC20NetipIP", Cfg: fl(64, 300), Reach: r},
				{Pkg: "fastlog", Func: "VerifC20StringArray", Cfg: fl(64, 300), Reach: r},
				{Pkg: "fastlog", Func: "VerifC20IPArray", Cfg: fl(64, 300), Reach: r},
			}
			for pos := int64(0); pos < 4; pos++ {
				jobs = append(jobs, Job{Pkg: "fastlog", Func: "VerifC20IP4", Args: []int64{pos}, Cfg: fl(64, 600), Reach: r})
			}
			if tier == "thorough" {
				jobs = append(jobs, Job{Pkg: "fastlog", Func: "VerifC20Int", Args: []int64{0, 24}, SplitN: 22, Cfg: fl(64, 1500), Reach: r})
			} else {
				jobs = append(jobs, Job{Pkg: "fastlog", Func: "VerifC20Int", Args: []int64{0, 12}, SplitN: 22, Cfg: fl(64, 600), Reach: r})
			}
			if tier == "thorough" {
				jobs = append(jobs, Job{Pkg: "fastlog", Func: "VerifC20IP6Digits", Args: []int64{256}, SplitN: 256, Cfg: fl(64, 900)})
				jobs = append(jobs, Job{Pkg: "fastlog", Func: "VerifC20ByteArray", Args: []int64{400}, Cfg: fl(700, 1500), Reach: r})
			} else {
				jobs = append(jobs, Job{Pkg: "fastlog", Func: "VerifC20IP6Digits", Args: []int64{16}, SplitN: 16, Cfg: fl(64, 600)})
				jobs = append(jobs, Job{Pkg: "fastlog", Func: "VerifC20ByteArray", Args: []int64{48}, Cfg: fl(300, 600), Reach: r})
			}
			return jobs
		},
		Bounds: func(tier string) map[string]string {
			b := map[string]string{
				"Int":              "every value in a window of 12 (quick) / 24 (thorough) values around 0, +-2^16, +-2^31, +-2^32, +-2^48, +-10, +-10^3, +-10^9, +-10^10, +-10^18 and at the two ends of the int64 range; all int64 values at once measured and not decided in 150 s (not claimed)",
				"scalar appenders": "Bool, Uint8Hex, Uint16Hex, Uint8/16/32 (all values), String/Bytes/Label (values 0..5 bytes, all contents), Msg, three-field concatenation; field names of 0, 1 and 4 arbitrary bytes; cursor at any position that leaves room; arbitrary old buffer contents",
				"MAC":              "each of the 6 positions takes all 256 values (others fixed); all lengths != 6 up to 8 render nil",
				"IPv6 (IPSlice)":   "all 256 zero/non-zero group layouts with constant non-zero groups; digit classes: one free group (all 65535 non-zero values) at every position for 16 layouts (quick) / all 256 layouts (thorough)",
				"IPv4 (IPSlice)":   "each octet position takes all 256 values, 4-byte and IPv4-mapped 16-byte forms",
				"array appenders":  "ByteArray: cursor in the last 48 (quick) / 400 (thorough) bytes of the buffer, length 0..4096; StringArray: <= 3 strings of 0/7/14 bytes, any cursor; IPArray: <= 2 IPv6 addresses, any cursor",
			}
			return b
		},
		Assumptions: []string{
			"reference renderers are written in the harness (RFC 5952 text form, strconv-style decimal, lowercase hex); the RFC 5952 and decimal references are validated natively against net/netip and strconv on 200000 random addresses by ./check selftest",
			"Line.IP delegates to netip.Addr.AppendTo: only cursor/bounds behaviour is decided, equality with the standard library is by construction; Int, Duration, Time, Sprintf, Stringer content not decided",
		},
		Outside: []string{"String()/FastLog() renderers of the protocol views and table entries", "Duration/Time/Sprintf/Stringer content", "IPv6 addresses with more than one non-constant group at a time"},
	})
}

func init() {
	register(&Prop{
		ID:        "C03",
		Technique: "bounded symbolic execution of the encoders followed by the library decoders and an independent reference extraction; round-trip equalities asserted by SMT (symbolic payload lengths via layered arrays, Skolem index for payload bytes)",
		Jobs: func(tier string) []Job {
			r := []string{"done"}
			pm := Config{MaxLoop: 1100, MaxWall: 900, PermuteMaps: true, Stubs: map[string]bool{}}
			jobs := []Job{
				{Pkg: "root", Func: "VerifC03Ether", Cfg: cfg(64, 600), Reach: r},
				{Pkg: "root", Func: "VerifC03IP4", Cfg: cfg(64, 600), Reach: r},
				{Pkg: "root", Func: "VerifC03IP6", Cfg: cfg(64, 600), Reach: r},
				{Pkg: "root", Func: "VerifC03UDP", Cfg: cfg(64, 600), Reach: r},
				{Pkg: "root", Func: "VerifC03ARP", Cfg: cfg(64, 600), Reach: r},
				{Pkg: "root", Func: "VerifC03ICMPEcho", Cfg: cfg(64, 600), Reach: r},
				{Pkg: "root", Func: "VerifC03NDP", Cfg: cfg(64, 600), Reach: r},
				{Pkg: "root", Func: "VerifC03DNSQuery", Cfg: cfg(64, 600), Reach: r},
				{Pkg: "root", Func: "VerifC03Compose", Args: []int64{0}, Cfg: cfg(64, 600), Reach: r},
				{Pkg: "root", Func: "VerifC03Compose", Args: []int64{1}, Cfg: cfg(64, 600), Reach: r},
				{Pkg: "root", Func: "VerifC03DHCP4", Args: []int64{1, 1, 0}, Cfg: pm, Reach: r},
				{Pkg: "root", Func: "VerifC03DHCP4", Args: []int64{2, 2, 1}, Cfg: pm, Reach: r},
			}
			if tier == "thorough" {
				jobs = append(jobs, Job{Pkg: "root", Func: "VerifC03DHCP4", Args: []int64{2, 2, 0}, Cfg: pm, Reach: r})
			}
			return jobs
		},
		Bounds: func(tier string) map[string]string {
			d := "<= 1 arbitrary option (code, <= 4 value bytes) with an order list of <= 1 code; plus the {subnet mask, router} set with every order list of <= 2 codes"
			if tier == "thorough" {
				d += "; plus <= 2 arbitrary options with order lists of <= 2 codes"
			}
			return map[string]string{
				"Ethernet/IPv4/IPv6/UDP/ICMP echo": "all field values; payload length symbolic 0..MTU-ish (1500/1480/1460/1472/1400) with arbitrary contents; buffer capacity symbolic from the documented minimum to EthMaxSize, arbitrary old contents",
				"ARP, NDP NA/NS, DNS query":         "all field values (DNS encoded name 0..8 arbitrary bytes)",
				"composition":                       "Ether/IPv4/UDP and Ether/IPv6/UDP with every port pair and payload 0..64 bytes, classified by the real Parse",
				"DHCPv4":                            d + "; all map iteration orders (<= 3 entries)",
			}
		},
		Assumptions: []string{"reference extraction at RFC positions is written in the harness (shared helpers with C02)", "DHCP options larger than the 1024-byte temporary buffer are outside the documented limit", "stubs as in C01"},
		Outside:     []string{"RouterAdvertisement marshal (C07/C14)", "DHCP option maps with more than 2 arbitrary entries", "payloads larger than the stated lengths"},
	})
}

func init() {
	ci := func(maxLoop, wall int) Config {
		return Config{MaxLoop: maxLoop, MaxWall: wall, Stubs: map[string]bool{"concidx": true}}
	}
	register(&Prop{
		ID:        "C08",
		Technique: "bounded symbolic execution of the payload decoders on arbitrary / field-corrupted truncated inputs; panics, solver-decided loop-state repetition (non-termination) and unwinding bounds as SMT obligations",
		Jobs: func(tier string) []Job {
			r := []string{"done"}
			q := tier != "thorough"
			pick := func(a, b int64) int64 {
				if q {
					return a
				}
				return b
			}
			jobs := []Job{
				{Pkg: "root", Func: "VerifC08DecodeName", Args: []int64{pick(6, 8)}, SplitN: int(pick(7, 9)), Cfg: ci(64, 1200)},
				{Pkg: "root", Func: "VerifC08NDPOptions", Args: []int64{pick(16, 23)}, Cfg: cfg(64, int(pick(400, 1500))), Reach: r},
				{Pkg: "root", Func: "VerifC08HopByHop", Args: []int64{pick(14, 17)}, Cfg: cfg(64, 900), Reach: r},
				{Pkg: "root", Func: "VerifC08LLDP", Args: []int64{pick(12, 16)}, Cfg: cfg(64, 900), Reach: r},
				{Pkg: "root", Func: "VerifC08DHCPOptions", Args: []int64{pick(246, 248)}, Cfg: cfg(300, 900), Reach: r},
				{Pkg: "root", Func: "VerifC08_8023", Args: []int64{40}, Cfg: cfg(64, 900), Reach: r},
				{Pkg: "root", Func: "VerifC08DNSTemplate", Args: []int64{1}, SplitN: 192, Cfg: ci(64, 600)},
			}
			if !q {
				jobs = append(jobs, Job{Pkg: "root", Func: "VerifC08DNSTemplate", Args: []int64{2}, SplitN: 192, Cfg: ci(64, 1500)})
			}
			// handler level: the ICMPv6 / ICMPv4 handlers on every accepted frame with an arbitrary ICMP message
			hc := Config{MaxLoop: 200, MaxWall: 1500, Stubs: map[string]bool{"uf-checksum": true}}
			n6, n4 := pick(24, 32), pick(16, 32)
			jobs = append(jobs, Job{Pkg: "handlers/icmp_spoofer", Func: "VerifC08ICMP6Packet", Args: []int64{n6}, SplitN: int(n6) + 1, Cfg: hc, Reach: []string{"processed"}})
			jobs = append(jobs, Job{Pkg: "handlers/icmp_spoofer", Func: "VerifC08ICMP4Packet", Args: []int64{n4}, SplitN: int(n4) + 1, Cfg: hc, Reach: []string{"processed"}})
			// the DHCP handler on every DHCPv4 frame with arbitrary BOOTP fields and an arbitrary options area
			dc := Config{MaxLoop: 1200, MaxWall: 1500, Stubs: map[string]bool{}}
			modes := []int64{2}
			if !q {
				modes = []int64{1, 2, 3}
			}
			for _, m := range modes {
				nd := pick(5, 6)
				jobs = append(jobs, Job{Pkg: "handlers/dhcp4_spoofer", Func: "VerifC08DHCPPacket", Args: []int64{m, 0, nd}, SplitN: int(nd) + 1, Cfg: dc, Reach: []string{"processed"}})
				jobs = append(jobs, Job{Pkg: "handlers/dhcp4_spoofer", Func: "VerifC08DHCPPacket", Args: []int64{m, 1, 6}, SplitN: 7, Cfg: dc, Reach: []string{"processed"}})
				jobs = append(jobs, Job{Pkg: "handlers/dhcp4_spoofer", Func: "VerifC08DHCPOptionsTemplate", Args: []int64{m, 0}, Cfg: dc, Reach: []string{"processed"}})
				jobs = append(jobs, Job{Pkg: "handlers/dhcp4_spoofer", Func: "VerifC08DHCPOptionsTemplate", Args: []int64{m, 1}, Cfg: dc, Reach: []string{"processed"}})
			}
			return jobs
		},
		Bounds: func(tier string) map[string]string {
			q := tier != "thorough"
			s := func(a, b string) string {
				if q {
					return a
				}
				return b
			}
			return map[string]string{
				"decodeName":             "arbitrary buffers of length 0.." + s("6", "8") + " (one job per length), arbitrary offset, any capacity; pointer chains to the code's own recursion limit (255)",
				"DNS question + answers": "three message templates (label / pointer question names, one or two answers, rdata with a nested label+pointer) in which " + s("each single field", "each single field and every pair of fields") + " among ANCount, label lengths, pointer targets, record type, RDLENGTH, first rdata byte is arbitrary, truncated at every offset",
				"NDP options":            "arbitrary option bytes of length 0.." + s("16", "23"),
				"DHCP handler":           "ProcessPacket (secondary mode; thorough: all three modes) on every frame the real Parse classifies as DHCPv4, client->server and server->client, with every BOOTP header field arbitrary and an options area of 0.." + s("5", "6") + " arbitrary bytes (server->client: 0..6); plus option templates: message-type option of length 0 / 1 / 2 followed by a server-identifier / requested-address / client-id / lease-time / parameter-list option of length 0 / 4 / 7 with arbitrary values, with and without end marker, both directions",
				"ICMP handlers":          "ICMPv6 handler ProcessPacket (hunt list of 0..1 entries) on every frame accepted by the real Parse whose ICMPv6 message is 0.." + s("24", "32") + " arbitrary bytes (every type, code, body, option bytes); ICMPv4 handler likewise with 0.." + s("16", "32") + " bytes",
				"hop-by-hop, LLDP TLVs":  "arbitrary bytes of length 0.." + s("14 / 12", "17 / 16"),
				"DHCP options":           "240-byte header + 0.." + s("6", "8") + " arbitrary option bytes",
				"802.3/LLC":              "frames accepted by Parse as 802.3, length 14..40",
				"loop unwinding":         "64 iterations; non-termination decided by a loop-state repetition query",
			}
		},
		Assumptions: []string{
			"symbolic indices into the (small) buffers are case-split to concrete values (complete within the stated lengths)",
			"stubs as in C01; DNSSL domain text uses the real puny/strings code with symbolic UTF-8 decoding",
		},
		Outside: []string{
			"SSDP (net/http, bufio are not modelled)",
			"the handler-level ProcessPacket entry points of the four handlers (ARP, DHCPv4, ICMPv6, DNS/mDNS/NBNS) beyond the payload decoders listed: not encoded in this session",
			"DNS messages outside the templates; inputs longer than the stated lengths",
		},
	})
}

func init() {
	register(&Prop{
		ID:        "C19",
		Technique: "bounded symbolic execution of echoNotify / Parse / ping / Ping6 from symbolic waiter tables and identifier counters with a programmable connection; completion conditions asserted by SMT against the reference decoder",
		Jobs: func(tier string) []Job {
			r := []string{"done"}
			jobs := []Job{
				{Pkg: "root", Func: "VerifC19Notify", Cfg: cfg(64, 300), Reach: r},
				{Pkg: "root", Func: "VerifC19Parse", Args: []int64{0}, Cfg: cfg(64, 600), Reach: r},
				{Pkg: "root", Func: "VerifC19Parse", Args: []int64{1}, Cfg: cfg(64, 600), Reach: r},
			}
			for v6 := int64(0); v6 < 2; v6++ {
				for mode := int64(0); mode < 5; mode++ {
					jobs = append(jobs, Job{Pkg: "root", Func: "VerifC19Ping", Args: []int64{v6, mode}, Cfg: cfg(64, 300), Reach: r})
				}
			}
			// thread mode: two concurrent pings and the packet loop; without timeouts (both must succeed) and with
			pre := -1
			if tier == "thorough" {
				pre = 1
			}
			for v6 := int64(0); v6 < 2; v6++ {
				for rev := int64(0); rev < 2; rev++ {
					for _, tk := range []int{-1, 1, 2} {
						to := int64(1)
						if tk < 0 {
							to = 0
						}
						c := Config{MaxLoop: 1000, MaxWall: 900, Preempt: pre, Ticks: tk, Stubs: map[string]bool{"uf-checksum": true}}
						jobs = append(jobs, Job{Pkg: "root", Func: "VerifC19Concurrent", Args: []int64{v6, rev, to}, Cfg: c, Threads: true, Reach: []string{"joined"}})
					}
				}
			}
			return jobs
		},
		Bounds: func(tier string) map[string]string {
			return map[string]string{
				"echoNotify":   "every waiter table of <= 3 entries with distinct arbitrary identifiers, every notified identifier",
				"Parse":        "every IPv4/ICMP and IPv6/ICMPv6 frame of length 0..80 (all contents) with one pending waiter of arbitrary identifier: completed iff the reference decoder sees a well-formed echo reply with that identifier",
				"concurrent":   "thread mode: two goroutines ping (IPv4 / IPv6) while a third parses the echo replies in request order or reversed; paths on which no timer fires (both pings must return nil), one timer, two timers; preemption bound 0 (thorough 1); happens-before race check on the waiter table and entries; distinct identifiers, nil-or-timeout results, no waiter left behind",
				"ping / Ping6": "arbitrary identifier counter value (including the wrap), arbitrary target MAC; five scenarios: no reply, send failure, matching reply parsed while waiting (both select outcomes), foreign identifier, a second ping started while the first is in flight",
			}
		},
		Assumptions: []string{
			"sequential semantics: the reply is delivered from inside the connection's WriteTo (i.e. before the waiter's select); the timer arm of select is always enabled (time is adversarial), a closed wake-up channel enables its arm; both are explored",
			"real interleavings of concurrent pings with the packet loop (thread mode) are not explored; the identifier counter is a 16-bit value, so more than 65535 outstanding pings are outside the claim",
		},
		Outside: []string{"wall-clock latency", "goroutine-level interleavings"},
	})
}

func init() {
	register(&Prop{
		ID:        "C16",
		Technique: "bounded symbolic execution: provenance/offset assertions on the views returned by Parse (shared with C02) and SMT-decided unreachability of every allocating SSA instruction on the steady-state path",
		Jobs: func(tier string) []Job {
			al := Config{MaxLoop: 64, MaxWall: 900, TrackAlloc: true, Stubs: map[string]bool{}}
			return []Job{
				{Pkg: "root", Func: "VerifC02Parse", SplitN: 7, Cfg: cfg(64, 900), Reach: []string{"parsed"}},
				{Pkg: "root", Func: "VerifC01Parse", Args: []int64{1}, SplitN: 7, Cfg: cfg(64, 900), Reach: []string{"parsed"}},
				{Pkg: "root", Func: "VerifC16Alloc", Args: []int64{4}, Cfg: al, Reach: []string{"done"}},
				{Pkg: "root", Func: "VerifC16Alloc", Args: []int64{6}, Cfg: al, Reach: []string{"done"}},
				{Pkg: "root", Func: "VerifC16Alloc", Args: []int64{0}, Cfg: al, Reach: []string{"done"}},
			}
		},
		Bounds: func(tier string) map[string]string {
			return map[string]string{
				"aliasing":   "every frame of length 0..1536: each view returned by Parse (Ether, IP4, IP6, UDP, TCP, Payload, MACs) is a sub-slice of the caller's buffer (same backing object) at the reference decoder's offset and ends inside the frame (VerifC02Parse / VerifC01Parse)",
				"allocation": "every well-formed frame (reference decoder reports no error) of length 14..1536 whose source is an already tracked, online host (IPv4 on-LAN source, IPv6 link-local source, ARP sender), every PayloadID class: no allocating SSA instruction (heap Alloc in repository code, MakeSlice/MakeMap/MakeClosure, boxing of non-pointer values, growing append, string conversions, go, fmt.Errorf) is reachable between entry and return of Parse",
			}
		},
		Assumptions: []string{
			"allocation is decided at go/ssa level; go/ssa's conservative Heap flag is trusted only for the repository's own functions (dependency code such as net/netip spills arrays that the gc compiler keeps on the stack); the gc compiler's escape analysis itself is outside the model",
			"logging calls are stubbed (their arguments are evaluated); time.Now is a stub",
		},
		Outside: []string{"the gc compiler's escape analysis and inlining decisions", "untracked-by-rule sources (own MAC, router, multicast, off-LAN) are covered for aliasing but the allocation claim is for tracked hosts only"},
	})
}

// ---- C04 / C05 / C06 / C10: one inductive-step harness family, findings attributed by assertion prefix

func shapeCount(h1, h2 int) int {
	n := 1
	for a := 1; a <= h1; a++ {
		n += 1 << a
	}
	for a := 1; a <= h2; a++ {
		for b := 1; b <= h2; b++ {
			n += 1 << (a + b)
		}
	}
	return n
}

func stepJobs(tier string) []Job {
	h1, h2 := int64(3), int64(1)
	if tier == "thorough" {
		h1, h2 = 3, 2
	}
	n := shapeCount(int(h1), int(h2))
	r := []string{"stepped"}
	var jobs []Job
	for _, kind := range []int64{4, 0, 6} {
		jobs = append(jobs, Job{Pkg: "root", Func: "VerifC04Frame", Args: []int64{kind, h1, h2}, SplitN: n, Cfg: cfg(64, 900), Reach: r})
	}
	jobs = append(jobs, Job{Pkg: "root", Func: "VerifC04Purge", Args: []int64{h1, h2}, SplitN: n, Cfg: cfg(64, 900), Reach: r})
	jobs = append(jobs, Job{Pkg: "root", Func: "VerifC04DHCP", Args: []int64{h1, h2}, SplitN: n, Cfg: cfg(64, 900), Reach: r})
	return jobs
}

// nameJobs: the name-update step of C06 (five naming sources); quick: shapes with one host per MAC and 3 known-entry
// shapes, thorough: shapes with <= 2 hosts per MAC and 6 known-entry shapes.
func nameJobs(tier string) []Job {
	h1, h2, ne := int64(1), int64(1), int64(3)
	if tier == "thorough" {
		h1, h2, ne = 2, 1, 6
	}
	var jobs []Job
	for src := int64(0); src < 5; src++ {
		jobs = append(jobs, Job{Pkg: "root", Func: "VerifC06Name", Args: []int64{src, h1, h2, ne}, SplitN: shapeCount(int(h1), int(h2)), Cfg: cfg(64, 900), Reach: []string{"stepped"}})
	}
	return jobs
}

func stepBounds(tier string) map[string]string {
	sh := "no MAC entry; one entry with 1..3 hosts; two entries with 1 host each (19 shapes incl. every IPv4/IPv6 mix)"
	if tier == "thorough" {
		sh = "no MAC entry; one entry with 1..3 hosts; two entries with 1..2 hosts each (51 shapes incl. every IPv4/IPv6 mix)"
	}
	return map[string]string{
		"pre-states": "every heap shape: " + sh + "; every field value: MACs, IPv4 addresses in the /24 home LAN, IPv6 link-local addresses, online flags, LastSeen (any instant in the previous ~71 minutes), captured / router flags; constrained only by the representation invariant (distinct MACs, distinct indexed IPs, host.Online => entry.Online, at most one online IPv4 host per MAC = entry.IP4); no pending notifications",
		"steps":      "Parse+Notify of an IPv4 (34 B), ARP (42 B) or IPv6 (54 B) frame with every header field symbolic (own / router / multicast / client MACs, on-LAN / off-LAN / zero / link-local / global addresses by value); purge(now); DHCPv4Update(mac, on-LAN ip)",
		"induction":  "one step from an arbitrary invariant state: invariant preserved + transition specification + notification contract => holds for histories of any length over these shapes",
	}
}

func c06Bounds(tier string) map[string]string {
	b := stepBounds(tier)
	b["name step"] = "a name update from each of the five naming sources (DHCPv4, mDNS, SSDP, LLMNR, NBNS) for any tracked host (online or offline) followed by Notify and a drain, then a second Notify; known entry: name 0..2 arbitrary bytes (thorough: + model / OS / manufacturer 0..1), learned entry: name 0..2, model 0..1, OS and manufacturer 0..1 bytes, expiry present or absent; pre-state shapes with one host per MAC (thorough: <= 2 hosts per MAC)"
	return b
}

func prefixFilter(prefix string, panics bool) func(Finding) bool {
	return func(f Finding) bool {
		if f.Kind == "assert" {
			return len(f.Expr) >= len(prefix) && f.Expr[:len(prefix)] == prefix
		}
		return panics
	}
}

func init() {
	common := []string{
		"inductive-step argument: a counterexample from a pre-state no history reaches would mean the assumed invariant is too weak (it is then strengthened, not reported); reported violations are replayed natively by rebuilding the pre-state through the same harness code",
		"stubs as in C01; time is an explicit parameter (purge(now), LastSeen fields); deadlines are the library defaults (2 / 5 / 61 minutes)",
		"the session's own host and router entries created by NewSession are not part of the pre-states",
	}
	register(&Prop{ID: "C04", Jobs: stepJobs, Bounds: stepBounds, Assumptions: common, Filter: prefixFilter("C04:", false),
		Technique: "inductive step by bounded symbolic execution from symbolic invariant states; transition specification (reference model over (MAC, IP, online) triples) asserted by SMT",
		Outside:   []string{"more than 6 tracked hosts / 2 MAC entries", "IPv6 global-unicast pre-existing hosts", "the probe goroutine's frames (C07)", "name updates (they change no triple; the name step is checked under C06)"}})
	register(&Prop{ID: "C05", Jobs: stepJobs, Bounds: stepBounds, Assumptions: common, Filter: prefixFilter("C05:", true),
		Technique: "inductive step by bounded symbolic execution: representation invariant assumed on a symbolic pre-state, one operation executed from the real SSA, invariant and PrintTable self-check asserted",
		Outside:   []string{"Capture / Release / SetDHCPv4IPOffer (they only touch MAC-entry scalars)", "quiescent points of concurrent executions (C09)"}})
	register(&Prop{ID: "C06", Jobs: func(tier string) []Job { return append(stepJobs(tier), nameJobs(tier)...) }, Bounds: c06Bounds, Assumptions: common, Filter: prefixFilter("C06:", false),
		Technique: "inductive step by bounded symbolic execution: notification contract (who is notified, in which order, with which content, nothing left pending) asserted on the drained channel after each step",
		Outside:   []string{"name strings longer than 2 bytes", "notification channel overflow (precondition: drained after every step)", "eventual delivery for hosts that never send another frame (liveness)"}})
	c10Jobs := func(tier string) []Job {
		jobs := stepJobs(tier)
		n := int64(40)
		if tier == "thorough" {
			n = 56
		}
		jobs = append(jobs, Job{Pkg: "root", Func: "VerifC10NDPOptions", Args: []int64{n}, SplitN: 8, Cfg: cfg(64, 400)})
		jobs = append(jobs, Job{Pkg: "root", Func: "VerifC10DNSEntry", SplitN: 192, Cfg: Config{MaxLoop: 64, MaxWall: 600, Stubs: map[string]bool{"concidx": true}}})
		// the handlers' retained state: router table (C14 RA harness), DNS table / mDNS entries (C17 handler harnesses),
		// DHCP lease table and what the session learns from DHCP (C11 step harness, empty table, every mode and variant)
		for _, j := range icmp6Jobs(tier) {
			if j.Func == "VerifC14RA" {
				jobs = append(jobs, j)
			}
		}
		for _, j := range dnsJobs(tier) {
			if j.Func == "VerifC17ProcessDNS" || j.Func == "VerifC17MDNS" {
				jobs = append(jobs, j)
			}
		}
		for _, j := range dhcpJobs("quick") {
			if j.Func == "VerifC11Step" && j.Args[2] == 0 {
				jobs = append(jobs, j)
			}
		}
		return jobs
	}
	c10Bounds := func(tier string) map[string]string {
		b := stepBounds(tier)
		b["NDP options"] = "a single NDP option of every type, length 0..40 (quick) / 0..56 (thorough) bytes (DNSSL <= 16), all contents: the NewOptions structure (prefixes, RDNSS servers, link-layer addresses, route information, DNSSL) stored by the ICMPv6 handler"
		b["handlers"] = "ICMPv6 handler + session after every RA of the C14 harness; naming handler table, the entry ProcessDNS returns and the entries ProcessMDNS returns (C17 handler harnesses); DHCP lease table + session after every message of the C11 step harness from the empty table"
		b["DNS entry"] = "the C08 message templates (one arbitrary field, every truncation): the DNSEntry built by DecodeQuestion/DecodeAnswers and its Copy()"
		return b
	}
	register(&Prop{ID: "C10", Jobs: c10Jobs, Bounds: c10Bounds, Assumptions: common, Filter: prefixFilter("C10:", false),
		Technique: "provenance invariant by bounded symbolic execution: after each step everything reachable from the session is walked and must not reference the tagged packet buffer (exact per path, all inputs in the bound)",
		Outside:   []string{"the ARP handler's hunt list (keyed by copies made by the caller)", "SSDP / UPnP"}})
}

func init() {
	register(&Prop{
		ID:        "C07",
		Technique: "bounded symbolic execution of every session-level send path with a recording connection; each recorded frame is decoded by the reference decoder and its checksums decided by SMT (directly for IPv4/ICMPv4, as a structural obligation over an uninterpreted Checksum for ICMPv6, with C15 supplying Checksum == RFC 1071)",
		Jobs: func(tier string) []Job {
			r := []string{"done"}
			uf := Config{MaxLoop: 1000, MaxWall: 600, Stubs: map[string]bool{"uf-checksum": true}}
			direct := Config{MaxLoop: 1000, MaxWall: 600, Stubs: map[string]bool{}}
			var jobs []Job
			for w := int64(0); w <= 6; w++ {
				c := uf
				if w == 1 {
					c = direct
				}
				jobs = append(jobs, Job{Pkg: "root", Func: "VerifC07Send", Args: []int64{w}, Cfg: c, Reach: r})
			}
			for w := int64(0); w <= 5; w++ {
				jobs = append(jobs, Job{Pkg: "handlers/arp_spoofer", Func: "VerifC07ARP", Args: []int64{w}, Cfg: direct, Reach: []string{"processed"}})
			}
			jobs = append(jobs, arpJobs()...)
			// frames emitted along the ICMPv6 handler harnesses (spoofed NAs, corrective NA)
			for _, j := range icmp6Jobs(tier) {
				if j.Func == "VerifC14Loop" {
					jobs = append(jobs, j)
				}
			}
			// DHCP replies (OFFER / ACK / NAK) along the C11 step harness: every message variant in every mode from the empty table
			for _, j := range dhcpJobs("quick") {
				if len(j.Args) == 3 && j.Args[2] == 0 {
					jobs = append(jobs, j)
				}
			}
			// naming handler queries
			for k := int64(0); k <= 4; k++ {
				jobs = append(jobs, Job{Pkg: "handlers/dns_naming", Func: "VerifC07Naming", Args: []int64{k}, Cfg: direct, Reach: []string{"sent"}})
			}
			return jobs
		},
		Filter: func(f Finding) bool {
			if f.Job.Pkg == "root" {
				return true
			}
			return f.Kind == "assert" && len(f.Expr) >= 4 && f.Expr[:4] == "C07:"
		},
		Bounds: func(tier string) map[string]string {
			return map[string]string{
				"Session.arpRequest":                  "every destination MAC, sender and target (MAC, IPv4)",
				"ICMP4SendEchoRequest":                "every source/destination IPv4 address, destination MAC, id, seq; IPv4 header and ICMP checksums verified directly under the big-endian reference sum",
				"ICMP6SendEchoRequest":                "every source/destination IPv6 address, destination MAC, id, seq",
				"ICMP6SendNeighborAdvertisement / ICMP6SendNeighbourSolicitation": "every link-local source/destination/target, target MAC; NS destination = solicited-node multicast of the target",
				"ICMP6SendRouterSolicitation / ICMP6SendRouterAdvertisement":      "arbitrary host LLA; RA with one or two arbitrary prefixes (any lengths 0..128, each option must carry its own prefix, in order) and an optional RDNSS server, DNSSL \"lan\", MTU, source LLA",
				"ARP handler":                         "RequestRaw, Reply, Request, RequestTo, Probe, AnnounceTo with every destination MAC, sender and target (MAC, IPv4); plus every frame emitted along the C13 harnesses (spoof replies, probe rejects, spoof-loop announcements and the corrective request)",
				"NIC configuration":                   "symbolic host and router MAC, host link-local address; home LAN 192.168.0.0/24",
				"ICMPv6 handler":                      "every forged / corrective neighbour advertisement emitted along the C14 spoof-loop harnesses",
				"DHCP handler":                        "every OFFER / ACK / NAK emitted along the C11 step harness from the empty lease table (7 message variants x 3 modes): complete frame, host NIC MAC, IPv4 / UDP headers consistent, BOOTREPLY with cookie and message type",
				"naming handler":                      "SendNBNSNodeStatus, SendNBNSQuery, SendMDNSQuery, SendLLMNRQuery (5-letter symbolic label), SendSSDPSearch: Ethernet/IPv4/UDP consistency, IPv4 header checksum, protocol address and port, question name / request line",
			}
		},
		Assumptions: []string{
			"ICMPv6 checksum: Checksum is modelled as an uninterpreted function; the obligation is that its input is exactly the RFC 4443 pseudo-header followed by the message with a zero checksum field and that the result is stored in the checksum field low byte first; C15 decides Checksum == RFC 1071 (direct verification of the one's-complement sum over 70+ symbolic bytes did not finish in 300 s on z3 / cvc5 / z3-int and is replaced by this decomposition); native replays verify the checksum directly",
			"the multicast 33:33 MAC rule is asserted where the library chooses the destination (NS solicited-node, RS all-routers); for caller-supplied (MAC, IP) pairs the frame must carry them as given",
			"pooled frame buffers start with arbitrary contents",
		},
		Outside: []string{
			"DHCP client-side frames (forced DISCOVER / DECLINE / RELEASE towards the real server), the mDNS sleep-proxy response, UDP checksums",
			"the purge probe goroutine beyond its call to arpRequest / NS / echo (those functions are covered with arbitrary arguments)",
		},
	})
}

func arpJobs(tier ...string) []Job {
	r := []string{"processed"}
	c := cfg(64, 900)
	jobs := []Job{
		{Pkg: "handlers/arp_spoofer", Func: "VerifC13Process", Cfg: c, Reach: r},
		{Pkg: "handlers/arp_spoofer", Func: "VerifC13HuntOps", Cfg: c, Reach: r},
	}
	afters := []int64{0, 1, 2}
	if len(tier) > 0 && tier[0] == "thorough" {
		afters = []int64{0, 1, 2, 3, 4, 5, 6}
	}
	for _, m := range []int64{0, 1} {
		for _, a := range afters {
			jobs = append(jobs, Job{Pkg: "handlers/arp_spoofer", Func: "VerifC13Loop", Args: []int64{m, a}, Cfg: c, Reach: r})
		}
	}
	return jobs
}

func init() {
	register(&Prop{
		ID:        "C13",
		Technique: "bounded symbolic execution of the real ARP handler (real Session via NewSession with a recording connection): ProcessPacket from symbolic hunt lists / offer state on every valid ARP frame; StartHunt/StopHunt semantics; the spoof loop with StopHunt / Close delivered between iterations",
		Jobs:      func(tier string) []Job { return arpJobs(tier) },
		Filter:    prefixFilter("C13:", true),
		Bounds: func(tier string) map[string]string {
			return map[string]string{
				"ProcessPacket": "every 42-byte ARP frame accepted by the real Parse (all field values), hunt lists of 0..2 arbitrary (MAC, LAN IP) entries, an optional outstanding DHCP offer for an arbitrary MAC; symbolic host / router MAC",
				"hunt ops":      "StartHunt / StopHunt / IsHunting with an arbitrary MAC (possibly already hunted) on hunt lists of 0..2 entries",
				"spoof loop":    "one hunted host plus 0..1 other hunted hosts (arbitrary IPs, possibly equal); StopHunt or Close arrives after 0, 1 or 2 (thorough: 0..6) iterations (delivered from inside the connection's WriteTo, i.e. between two iterations); the ticker arm of select is always enabled",
			}
		},
		Assumptions: []string{
			"sequential semantics of the loop: time is abstracted to 'next iteration'; StopHunt/Close are delivered at iteration boundaries only (goroutine-level interleavings inside an iteration are not explored)",
			"stubs as in C01",
		},
		Outside: []string{"the 6 s period and 'within one cycle' in wall-clock time", "more than 3 hunted hosts"},
	})
}

// ---- C11 / C12: DHCP handler, one message from symbolic lease-table states

func dhcpJobs(tier string) []Job {
	c := Config{MaxLoop: 1200, MaxWall: 900, Stubs: map[string]bool{}}
	r := []string{"processed"}
	var jobs []Job
	for mode := int64(1); mode <= 3; mode++ {
		for variant := int64(0); variant <= 6; variant++ {
			if tier != "thorough" && variant == 0 && mode != 2 {
				continue // quick tier: DISCOVER with requested address / parameter list in secondary mode only
			}
			jobs = append(jobs, Job{Pkg: "handlers/dhcp4_spoofer", Func: "VerifC11Step", Args: []int64{mode, variant, 0}, SplitN: 4, Cfg: c, Reach: r})
			if tier == "thorough" {
				jobs = append(jobs, Job{Pkg: "handlers/dhcp4_spoofer", Func: "VerifC11Step", Args: []int64{mode, variant, 1}, SplitN: 24, Cfg: c, Reach: r})
			}
		}
	}
	if tier != "thorough" {
		// one pre-existing lease: REQUEST variants (selecting, renew/rebind, reboot) in secondary mode
		for _, variant := range []int64{2, 3, 4} {
			jobs = append(jobs, Job{Pkg: "handlers/dhcp4_spoofer", Func: "VerifC11Step", Args: []int64{2, variant, 1}, SplitN: 24, Cfg: c, Reach: r})
		}
		// one pre-existing lease (possibly another client's): plain DISCOVER in primary mode - the free-address search
		// meets an address that is taken
		jobs = append(jobs, Job{Pkg: "handlers/dhcp4_spoofer", Func: "VerifC11Step", Args: []int64{1, 1, 1}, SplitN: 24, Cfg: c, Reach: r})
	}
	// other home / netfilter prefix configurations (verifNetConfig 1, 2)
	for _, ncfg := range []int64{1, 2} {
		for mode := int64(1); mode <= 3; mode++ {
			for variant := int64(0); variant <= 6; variant++ {
				if tier != "thorough" && !(mode == 2 && (variant == 0 || variant == 2)) && !(mode == 3 && variant == 1) {
					continue // quick tier: DISCOVER with requested address and REQUEST selecting in secondary mode, plain DISCOVER in nice mode
				}
				jobs = append(jobs, Job{Pkg: "handlers/dhcp4_spoofer", Func: "VerifC11StepCfg", Args: []int64{mode, variant, 0, ncfg}, SplitN: 4, Cfg: c, Reach: r})
				if tier == "thorough" && variant >= 2 && variant <= 4 {
					jobs = append(jobs, Job{Pkg: "handlers/dhcp4_spoofer", Func: "VerifC11StepCfg", Args: []int64{mode, variant, 1, ncfg}, SplitN: 24, Cfg: c, Reach: r})
				}
			}
		}
	}
	return jobs
}

func dhcpBounds(tier string) map[string]string {
	pre := "empty lease table for every (mode, message variant); one arbitrary pre-existing lease (any state, either subnet, any client id / MAC / address / xid / expiry) for the REQUEST variants in secondary mode"
	if tier == "thorough" {
		pre = "empty lease table and one arbitrary pre-existing lease (any state, either subnet, any client id / MAC / address / xid / expiry) for every (mode, message variant)"
	}
	return map[string]string{
		"configuration": "three prefix configurations: home LAN 192.168.0.0/28 (router .1, our host .9) with netfilter LAN 192.168.0.8/29; home /27 (host .17) with netfilter 192.168.0.16/28; home /28 (host .2) with netfilter 192.168.0.0/30 containing the router address; our host is the netfilter gateway (deliberately small pools: cursor wrap-around and exhaustion are inside the bound; quick tier: the 2nd and 3rd configuration for DISCOVER with requested address, REQUEST selecting and plain DISCOVER only); modes primary, secondary, secondary-nice; symbolic host / router MAC",
		"pre-states":    pre + "; the client captured or not; optionally an address the session tracks for another MAC",
		"messages":      "DISCOVER (with / without requested address and parameter list), REQUEST selecting / renewing-rebinding / rebooting, DECLINE, RELEASE as Ethernet/IPv4/UDP/DHCP frames through the real Parse: client id (7 bytes), chaddr, xid, ciaddr, flags, source addresses symbolic; requested address any 192.168.0.x or 8.8.8.8; server id ours / the router's / any 192.168.0.x; parameter list {3,1} or {1,6}",
		"induction":     "one message from an arbitrary invariant lease table: reply contract + lease-table invariant (no address acknowledged to two clients, allocated leases usable) asserted afterwards",
	}
}

func init() {
	common := []string{
		"lease persistence is switched off (empty lease file name); the DHCP-server attack burst is disabled (nextAttack in the future); forced decline / release packets towards the real server are not replies and are not checked here",
		"time.Now is an arbitrary non-decreasing clock; lease expiry of the pre-state lease is either one hour in the past or far in the future",
		"stubs as in C01",
	}
	register(&Prop{ID: "C11", Jobs: dhcpJobs, Bounds: dhcpBounds, Assumptions: common, Filter: prefixFilter("C11:", true),
		Technique: "inductive step by bounded symbolic execution of the real DHCP handler on a real Session: one client message from a symbolic invariant lease table; uniqueness / reserved-address conditions asserted by SMT on every reply and on the post-state",
		Outside:   []string{"more than one pre-existing lease; multi-message histories (covered inductively for the bounded shapes only)", "lease file (C18)", "MinuteTicker expiry (one line, exercised by the expired/not-expired pre-states)"}})
	register(&Prop{ID: "C12", Jobs: dhcpJobs, Bounds: dhcpBounds, Assumptions: common, Filter: prefixFilter("C12:", false),
		Technique: "inductive step by bounded symbolic execution of the real DHCP handler: reply contract (subnet segregation by capture state, mask before router, server id, lease time, xid/chaddr echo, ACK only for the transaction's offer or the current lease, NAK carries no address) asserted by SMT on every emitted reply",
		Outside:   []string{"the complete NAK-vs-silence table (only 'never ACK' conditions are asserted)", "other home / netfilter prefix configurations"}})
}

func icmp6Jobs(tier string) []Job {
	c := Config{MaxLoop: 200, MaxWall: 900, Stubs: map[string]bool{"uf-checksum": true}}
	r := []string{"processed"}
	jobs := []Job{{Pkg: "handlers/icmp_spoofer", Func: "VerifC14HuntOps", Cfg: c, Reach: r}}
	afters, nrs := []int64{0, 1, 2}, []int64{0, 1, 2}
	if tier == "thorough" {
		afters, nrs = []int64{0, 1, 2, 3, 4}, []int64{0, 1, 2, 3}
	}
	for _, m := range []int64{0, 1} {
		for _, a := range afters {
			for _, nr := range nrs {
				jobs = append(jobs, Job{Pkg: "handlers/icmp_spoofer", Func: "VerifC14Loop", Args: []int64{m, a, nr}, Cfg: c, Reach: r})
			}
		}
	}
	for sel := int64(0); sel < 32; sel++ {
		jobs = append(jobs, Job{Pkg: "handlers/icmp_spoofer", Func: "VerifC14RA", Args: []int64{sel}, Cfg: c, Reach: r})
	}
	// options longer than 255 bytes (unknown type with 32 units first; RDNSS with 16 servers = 33 units): alone, between prefix / MTU and source LLA, and
	// followed by a DNS search list
	for _, sel := range []int64{64, 64 + 1 + 2 + 4 + 8, 32 + 4, 32 + 4 + 1 + 8, 32 + 4 + 2 + 8 + 16} {
		// (8 s on the unchanged tree; a parser that mis-steps into 264 arbitrary bytes explodes, hence the small budget:
		// exhausting it is reported as inconclusive, never as success)
		cl := c
		cl.MaxWall = 90
		jobs = append(jobs, Job{Pkg: "handlers/icmp_spoofer", Func: "VerifC14RA", Args: []int64{sel}, Cfg: cl, Reach: r})
	}
	return jobs
}

func init() {
	register(&Prop{
		ID:        "C14",
		Technique: "bounded symbolic execution of the real ICMPv6 handler on a real Session: hunt-list set semantics, the NA spoof loop with StopHunt / Close delivered between iterations, and differential router learning (real Parse + ProcessPacket vs an independent RA decoder)",
		Jobs:      icmp6Jobs,
		Filter:    prefixFilter("C14:", true),
		Bounds: func(tier string) map[string]string {
			return map[string]string{
				"hunt ops":        "hunt lists of 0..3 arbitrary (MAC, link-local) entries; StartHunt with IPv4, arbitrary non-link-local IPv6, link-local and address-less targets for an arbitrary (possibly already hunted) MAC; StopHunt of any MAC incl. the middle element",
				"spoof loop":      "one hunted host (+ 0..1 others), 0..2 (thorough 0..3) learned routers with arbitrary link-local addresses; StopHunt or Close after 0, 1 or 2 (thorough 0..4) iterations (delivered between iterations); every frame is checked (NA, override, target = learned router, target LLA = our MAC, hop limit 255, destination = the hunted MAC)",
				"router learning": "router advertisements through the real Parse with every header field symbolic and every subset of {prefix information, MTU, RDNSS with one server, source LLA, DNS search list with one single-label name of 1..7 letters (all padding lengths)}, plus five lists with an option longer than 255 bytes (an unknown option of 32 units = 256 bytes in front; an RDNSS option of 16 servers = 264 bytes), with all other option values symbolic: flags, preference, hop limit, lifetimes, timers, prefix, MTU, RDNSS and source LLA in the router table equal an independent decoder's reading",
			}
		},
		Assumptions: []string{
			"the handler processes one RA in four (package-level counter): the claim is about the RAs it processes (counter reset before each frame)",
			"sequential semantics of the loop (time abstracted to 'next iteration'); ICMPv6 checksum handled as in C07",
		},
		Outside: []string{"multi-label / multi-name DNSSL options and route-information option contents in the router table", "the 2-2.8 s period", "RADVS (router advertisement server) goroutines"},
	})
}

func dnsJobs(tier string) []Job {
	c := Config{MaxLoop: 300, MaxWall: 900}
	r := []string{"decoded"}
	var jobs []Job
	for sc := int64(0); sc < 9; sc++ {
		jobs = append(jobs, Job{Pkg: "root", Func: "VerifC17Records", Args: []int64{sc}, Cfg: c, Reach: r})
	}
	for k := int64(0); k < 9; k++ {
		jobs = append(jobs, Job{Pkg: "root", Func: "VerifC17Malformed", Args: []int64{k}, Cfg: c, Reach: r})
	}
	jobs = append(jobs, Job{Pkg: "root", Func: "VerifC17Truncated", Cfg: c, Reach: r})
	m := []string{"merged"}
	jobs = append(jobs, Job{Pkg: "root", Func: "VerifC17Merge", SplitN: 36, Cfg: c, Reach: m})
	full := int64(0)
	if tier == "thorough" {
		full = 1
	}
	for src := int64(0); src < 5; src++ {
		jobs = append(jobs, Job{Pkg: "root", Func: "VerifC17HostUpdate", Args: []int64{src, full}, SplitN: 12, Cfg: c, Reach: m})
	}
	p := []string{"processed"}
	for sc := int64(0); sc < 2; sc++ {
		jobs = append(jobs, Job{Pkg: "handlers/dns_naming", Func: "VerifC17ProcessDNS", Args: []int64{sc}, Cfg: c, Reach: p})
	}
	for k := int64(0); k < 3; k++ {
		jobs = append(jobs, Job{Pkg: "handlers/dns_naming", Func: "VerifC17ProcessDNSSingle", Args: []int64{k}, Cfg: c, Reach: p})
	}
	for k := int64(0); k < 3; k++ {
		jobs = append(jobs, Job{Pkg: "handlers/dns_naming", Func: "VerifC17ProcessDNSMalformed", Args: []int64{k}, Cfg: c, Reach: p})
	}
	for sec := int64(0); sec < 3; sec++ {
		for ex := int64(0); ex < 3; ex++ {
			jobs = append(jobs, Job{Pkg: "handlers/dns_naming", Func: "VerifC17MDNS", Args: []int64{sec, ex}, Cfg: c, Reach: p})
		}
	}
	nn := int64(2)
	if tier == "thorough" {
		nn = 3
	}
	for n := int64(0); n <= nn; n++ {
		jobs = append(jobs, Job{Pkg: "handlers/dns_naming", Func: "VerifC17NBNS", Args: []int64{n, 0x21, 0}, Cfg: c, Reach: p})
	}
	for _, sh := range []int64{1, 2, 3, 17, 18} {
		jobs = append(jobs, Job{Pkg: "handlers/dns_naming", Func: "VerifC17NBNS", Args: []int64{2, 0x21, sh}, Cfg: c, Reach: p})
	}
	jobs = append(jobs, Job{Pkg: "handlers/dns_naming", Func: "VerifC17NBNS", Args: []int64{1, 0x20, 0}, Cfg: c, Reach: p})
	jobs = append(jobs, Job{Pkg: "handlers/dns_naming", Func: "VerifC17NBNS", Args: []int64{1, 1, 0}, Cfg: c, Reach: p})
	return jobs
}

func init() {
	register(&Prop{
		ID:        "C17",
		Technique: "bounded symbolic execution of the real DNS decoders and naming handler on messages written by an independent builder (concrete structure, symbolic label / address / TTL bytes); SMT-decided equality with what the builder wrote; merge algebra over symbolic attribute strings",
		Jobs:      dnsJobs,
		Filter:    prefixFilter("C17:", true),
		Bounds: func(tier string) map[string]string {
			return map[string]string{
				"decode layer":   "9 message shapes (incl. an AAAA-only answer): names of 2-3 labels, the longest legal name (63.63.63.61), 127 one-byte labels, owner names longer than the 64-byte scratch buffer; compression by pointer to the question, label+pointer to a suffix, pointer chains of depth 3, pointer into CNAME rdata; A, AAAA, CNAME, PTR, ignored TXT; all label bytes, addresses, TTLs and the id symbolic",
				"malformed":      "9 classes: self pointer, label+back pointer, two-pointer cycle, length octet 64..191 (symbolic), pointer at/past the end (symbolic target), label past the end, RDLENGTH too large (symbolic), A with RDLENGTH != 4, owner pointer loop; truncation of a 2-record message at every offset",
				"naming handler": "ProcessDNS on frames through the real Parse (CNAME+A+AAAA response, second response for the same name, single-record responses of each kind A / AAAA / CNAME followed by a second different record, malformed / truncated responses); ProcessMDNS with A and AAAA records in each section, with and without a preceding unknown-type / NSEC record; ProcessNBNS node status responses with 0..2 (thorough 3) names of 1..3 characters, each unique or group, name arrays cut short by 1, 2, 3, 17, 18 bytes, and non-status answer types",
				"merge":          "NameEntry.Merge and the five Host.Update*Name functions over entries whose name/model are arbitrary strings of 0..2 bytes and OS/manufacturer 0..1 bytes, with and without expiry",
			}
		},
		Assumptions: []string{
			"structure of each message is concrete (chosen by the builder), contents symbolic",
			"merge: both entries come from the same naming source (Type equal)",
			"NBNS names: 15 characters space padded with the workstation suffix 0x00; printable non-space characters",
			"mDNS host label restricted to a-z (dnsmessage renders other bytes with escapes)",
		},
		Outside: []string{"names decoded from arbitrary (unstructured) symbolic bytes", "SSDP / UPnP and LLMNR extraction", "TXT model parsing", "the mDNS response cache expiry"},
	})
}

func leaseFileJobs(tier string) []Job {
	c := Config{MaxLoop: 1200, MaxWall: 900, Stubs: map[string]bool{}}
	var jobs []Job
	for sh := int64(0); sh < 64; sh++ {
		n := sh >> 3 & 3
		if n == 3 || (sh&4 != 0 && sh&1 == 0) || (sh&32 != 0 && n == 0) {
			continue
		}
		if n == 2 && tier != "thorough" && sh&7 != 3 {
			continue // quick tier: two lease records only with both subnets present and unchanged
		}
		if n == 2 && tier != "thorough" && sh&32 != 0 {
			continue
		}
		jobs = append(jobs, Job{Pkg: "handlers/dhcp4_spoofer", Func: "VerifC18Load", Args: []int64{sh}, Cfg: c, Reach: []string{"constructed"}})
	}
	for e := int64(0); e < 2; e++ {
		jobs = append(jobs, Job{Pkg: "handlers/dhcp4_spoofer", Func: "VerifC18Broken", Args: []int64{e}, Cfg: c, Reach: []string{"constructed"}})
	}
	jobs = append(jobs, Job{Pkg: "handlers/dhcp4_spoofer", Func: "VerifC18Restart", Args: []int64{0, 1}, SplitN: 1, Cfg: c, Reach: []string{"restarted"}})
	jobs = append(jobs, Job{Pkg: "handlers/dhcp4_spoofer", Func: "VerifC18Restart", Args: []int64{1, 1}, SplitN: 6, Cfg: c, Reach: []string{"restarted"}})
	jobs = append(jobs, Job{Pkg: "handlers/dhcp4_spoofer", Func: "VerifC18Restart", Args: []int64{2, 1}, SplitN: 36, Cfg: c, Reach: []string{"restarted"}})
	return jobs
}

func init() {
	register(&Prop{
		ID:        "C18",
		Technique: "bounded symbolic execution of the real lease persistence code (saveConfig, loadConfig / loadByteArray, Config.New) with gopkg.in/yaml.v2 and the file system replaced by models (harness/handlers/dhcp4_spoofer/c18.go): a fidelity model for save-then-load, and an ARBITRARY parsed document for damaged files; SMT-decided table obligations; counterexamples replayed against the real yaml package and real files",
		Jobs:      leaseFileJobs,
		Filter:    prefixFilter("C18:", true),
		Bounds: func(tier string) map[string]string {
			return map[string]string{
				"damaged file": "parsed document: net1 / net2 sections each present or missing, net1 describing another LAN, 0..2 lease records with arbitrary state (incl. out of range), client id (missing / 1 / 7 bytes), MAC (missing / arbitrary), address (unset / 192.168.0.x / arbitrary IPv4), first record's MAC captured or not; unparsable file; missing file (quick tier: two records only with both sections intact)",
				"restart":      "pre-state lease tables of 0..2 leases in every (state, subnet) combination (free / discover / allocated x home / netfilter), arbitrary client ids, MACs, addresses and expiry; save by the real saveConfig, construction by the real New, then a renewal REQUEST by the first allocated, unexpired client",
			}
		},
		Assumptions: []string{
			"yaml fidelity model: Unmarshal(Marshal(doc)) returns the exported fields of doc except those tagged yaml:\"-\" (Count, subnet); omitempty byte slices come back nil (replays use the real package)",
			"damaged-file model: every corruption that still parses yields SOME value of the document type (over-approximation); the relation between the damaged bytes and the original document ('never a binding absent from the original file') is judged against the parsed document only",
			"os.IsNotExist is false for model errors (it only selects a log line)",
			"small pools as in C11 (home /28, netfilter /29); primary server mode for the renewal",
		},
		Outside: []string{"the YAML text level: which byte-level truncations and substitutions parse, and to what (gopkg.in/yaml.v2 uses reflection and is not encoded)", "crash points inside ioutil.WriteFile", "hangs inside the YAML parser"},
	})
}

// c09Ops: operation index -> variants worth running
var c09Names = []string{"packet loop (Parse+Notify)", "purge", "FindIP+row read", "GetHosts+row read", "FindByMAC", "FindMACEntry", "Capture", "Release", "IsCaptured", "IPAddrs", "DHCP offer accessors", "PrintTable", "DHCPv4Update", "name update", "Close", "DHCPv4IPOffer alone", "SetDHCPv4IPOffer alone", "Notify alone"}

func threadJobs(tier string) []Job {
	c := Config{MaxLoop: 100, MaxWall: 1500, Preempt: -1, Stubs: map[string]bool{}}
	if tier == "thorough" {
		c.Preempt = 1
	}
	r := []string{"joined"}
	var jobs []Job
	add := func(a, va, b, vb int64) {
		jobs = append(jobs, Job{Pkg: "root", Func: "VerifC09Pair", Args: []int64{a, va, b, vb}, Cfg: c, Threads: true, Reach: r})
	}
	pv := []int64{0, 1, 4}
	if tier == "thorough" {
		pv = []int64{0, 1, 2, 3, 4}
	}
	for b := int64(1); b <= 16; b++ { // the packet loop against every other operation
		if b == 12 {
			continue // DHCPv4Update is called by the DHCP handler from inside the packet loop: never concurrent with Parse
		}
		for _, va := range pv {
			add(0, va, b, 0)
			if tier == "thorough" && b >= 2 && b != 3 && b != 11 && b != 14 {
				add(0, va, b, 1)
			}
		}
	}
	for a := int64(1); a <= 16; a++ { // every pair of control / query operations (incl. purge and Close)
		for b := a; b <= 16; b++ {
			if tier != "thorough" && a != 1 && b != 14 && !(a == 12 || a == 13 || a == 6 || a == 7 || a == 10 || b >= 15) {
				continue // quick tier: pairs of pure readers are left to the thorough tier
			}
			if a == 12 && b == 12 {
				continue // one packet loop: DHCPv4Update is never concurrent with itself
			}
			add(a, 0, b, 0)
		}
	}
	// handler level: the spoof loops of the ARP and ICMPv6 handlers against the packet loop and the control API
	hs := map[string]bool{"go:(github.com/irai/packet.Config).NewSession$1": true, "go:(github.com/irai/packet.Config).NewSession$2": true, "uf-checksum": true}
	hc := Config{MaxLoop: 100, MaxWall: 900, Preempt: c.Preempt, Stubs: hs}
	for op := int64(0); op <= 5; op++ {
		for ce := int64(0); ce <= 1; ce++ {
			jobs = append(jobs, Job{Pkg: "handlers/arp_spoofer", Func: "VerifC09ARP", Args: []int64{op, ce}, Cfg: hc, Threads: true, Reach: r})
		}
	}
	for op := int64(0); op <= 4; op++ {
		for ce := int64(0); ce <= 2; ce++ {
			for kr := int64(0); kr <= 1; kr++ {
				if op == 0 && ce == 2 {
					continue // two concurrent ProcessPacket calls: there is one packet loop
				}
				jobs = append(jobs, Job{Pkg: "handlers/icmp_spoofer", Func: "VerifC09ICMP6", Args: []int64{op, ce, kr}, Cfg: hc, Threads: true, Reach: r})
			}
		}
	}
	hd := hc
	hd.MaxLoop = 1200
	hd.Preempt = -1 // both tiers: the DHCP scenarios carry 300-byte frames and large access logs; with one preemption ten of them running side by side exhaust the 62 GB of this sandbox (measured)
	for op := int64(0); op <= 4; op++ {
		for _, mode := range []int64{1, 2} {
			jobs = append(jobs, Job{Pkg: "handlers/dhcp4_spoofer", Func: "VerifC09DHCP", Args: []int64{op, mode}, Cfg: hd, Threads: true, Reach: r})
		}
	}
	for op := int64(0); op <= 2; op++ {
		for k := int64(0); k <= 1; k++ {
			jobs = append(jobs, Job{Pkg: "handlers/dns_naming", Func: "VerifC09DNS", Args: []int64{op, k}, Cfg: hd, Threads: true, Reach: r})
		}
	}
	// Notify on its own (its Parse ran earlier) against every other operation except the packet loop itself
	for b := int64(1); b <= 16; b++ {
		if b == 12 {
			continue
		}
		for _, v := range []int64{0, 4} {
			add(17, v, b, 0)
		}
	}
	if tier == "thorough" {
		for _, va := range []int64{0, 1, 4} {
			for _, x := range []int64{2, 6, 13, 14} { // not 12: DHCPv4Update runs inside the packet loop
				jobs = append(jobs, Job{Pkg: "root", Func: "VerifC09Triple", Args: []int64{va, x, 0}, Cfg: c, Threads: true, Reach: r})
			}
		}
	}
	return jobs
}

func init() {
	register(&Prop{
		ID:        "C09",
		Technique: "bounded-schedule symbolic execution (thread mode of gse): goroutines of the real code run as cooperative threads over one symbolic state; context switches before every acquiring / blocking synchronisation operation, scheduler choices forked like data decisions within a preemption bound; a vector-clock happens-before relation (go, Mutex / RWMutex with writer preference, channels, WaitGroup) checked at every heap access (predictive data-race detection), deadlock = no runnable thread, C05 invariants asserted at quiescence; races and deadlocks are replayed with real goroutines under the Go race detector",
		Jobs:      threadJobs,
		Bounds: func(tier string) map[string]string {
			m := map[string]string{
				"threads":  "2 goroutines (thorough: also 3: packet loop + purge + one API caller), one operation each, started from a table with MAC1{2 IPv4 hosts} and MAC2{1 host} whose online flags and ages are symbolic",
				"ops":      "packet loop (Parse+Notify of a frame refreshing a host / claiming another MAC's address / from a new host; also Notify alone after an earlier Parse), purge(now), FindIP, GetHosts, FindByMAC, FindMACEntry, Capture, Release, IsCaptured, IPAddrs, DHCP offer accessors (together and each on its own), PrintTable, DHCPv4Update, Host.UpdateMDNSName, Close",
				"handlers": "ARP handler: spoof loop (started by StartHunt) || one of ProcessPacket (ARP request from the victim), StopHunt, StartHunt of another host, IsHunting, PrintTable, StopHunt+StartHunt || optional early Close; ICMPv6 handler: NA spoof loop || one of ProcessPacket (router advertisement), StopHunt, StartHunt, PrintTable, StopHunt+StartHunt || optional early Close or a concurrent ProcessPacket, with and without a known router; the session's own background goroutines are not started; timers fire at most once per path; every run ends with Close and must leave no goroutine blocked; DHCP handler: ProcessPacket (DISCOVER of a new client, primary and secondary mode, one lease that may be expired) || one of MinuteTicker, PrintTable, StartHunt, StopHunt, Close; naming handler: ProcessDNS (new name / name already stored) || one of DNSFind (and reading the returned copy), DNSExist, PrintDNSTable",
				"schedule": "quick: non-preemptive schedules (every order in which threads start / resume after blocking); thorough: one preemption at any acquire (DHCP and naming handler scenarios: non-preemptive in both tiers). The happens-before race check is schedule independent for the code executed on a path",
			}
			return m
		},
		Assumptions: []string{
			"data-race freedom is judged by happens-before over the explored paths (no memory-model subtleties; atomics are synchronisation free accesses that never race)",
			"fastlog and fmt output are stubbed: races inside logging are not seen",
			"background goroutines (purgeLoop, handler loops) are represented by direct calls of their bodies (purge(now)) in a harness thread",
			"supported pattern: ONE goroutine runs Parse / Notify / DHCPv4Update (the DHCP handler calls it from the packet loop); they are not run concurrently with each other (the check-then-act window of findOrCreateHostWithLock between its read-locked lookup and its write-locked insert is therefore outside the property)",
		},
		Outside: []string{"more than 3 goroutines / more than one operation per goroutine", "schedules beyond the preemption bound", "Close stopping real background goroutines (timers)"},
	})
}
