package main

import (
	"fmt"
	"go/token"
	"sort"
	"strings"

	"golang.org/x/tools/go/ssa"
)

// Thread mode: cooperative threads over the same symbolic state. Context switches are offered before every
// acquiring / possibly blocking synchronisation operation (Lock, RLock, channel send / receive / select,
// WaitGroup.Wait) and when the running thread blocks or ends; the scheduler's choice forks the state like any
// other decision, bounded by a preemption budget. On every explored schedule a vector-clock happens-before
// relation (fork, lock release->acquire with separate reader / writer clocks, channel, WaitGroup) is maintained
// and every heap access is checked against it: two conflicting accesses unordered by happens-before are a data
// race whatever the order they were executed in. sync.RWMutex has Go's writer preference (a waiting writer blocks
// new readers). No runnable thread while some thread is not finished is a deadlock.

type threadYield struct{}

type accEntry struct {
	tid   int
	path  string
	write bool
	clk   int
	site  string
}

type waitCh struct {
	obj  int
	send bool
}

type threadState struct {
	sw       bool // a switch point is pending
	preempts int
	ticks    int // remaining timer firings
	lockW    map[lockID][]int
	lockR    map[lockID][]int
	chanVC   map[int][]int
	wg       map[lockID]int
	wgVC     map[lockID][]int
	acc      map[int][]accEntry
	nolog    bool
}

func (t *threadState) clone() *threadState {
	n := *t
	n.lockW = make(map[lockID][]int, len(t.lockW))
	for k, v := range t.lockW {
		n.lockW[k] = v
	}
	n.lockR = make(map[lockID][]int, len(t.lockR))
	for k, v := range t.lockR {
		n.lockR[k] = v
	}
	n.chanVC = make(map[int][]int, len(t.chanVC))
	for k, v := range t.chanVC {
		n.chanVC[k] = v
	}
	n.wg = make(map[lockID]int, len(t.wg))
	for k, v := range t.wg {
		n.wg[k] = v
	}
	n.wgVC = make(map[lockID][]int, len(t.wgVC))
	for k, v := range t.wgVC {
		n.wgVC[k] = v
	}
	n.acc = make(map[int][]accEntry, len(t.acc))
	for k, v := range t.acc {
		n.acc[k] = v
	}
	return &n
}

func vcGet(v []int, i int) int {
	if i < len(v) {
		return v[i]
	}
	return 0
}

func vcJoin(a, b []int) []int {
	n := len(a)
	if len(b) > n {
		n = len(b)
	}
	r := make([]int, n)
	for i := range r {
		r[i] = vcGet(a, i)
		if x := vcGet(b, i); x > r[i] {
			r[i] = x
		}
	}
	return r
}

func (th *Thread) tick() {
	v := vcJoin(th.vc, nil)
	for len(v) <= th.id {
		v = append(v, 0)
	}
	v[th.id]++
	th.vc = v
}

func (e *Engine) tm(st *State) *threadState {
	if st.tm == nil {
		ticks := 1
		if e.cfg.Ticks > 0 {
			ticks = e.cfg.Ticks
		}
		if e.cfg.Ticks < 0 {
			ticks = 0
		}
		st.tm = &threadState{ticks: ticks, lockW: map[lockID][]int{}, lockR: map[lockID][]int{}, chanVC: map[int][]int{},
			wg: map[lockID]int{}, wgVC: map[lockID][]int{}, acc: map[int][]accEntry{}}
		st.threads[0].tick()
	}
	return st.tm
}

func (e *Engine) preemptBound() int {
	if e.cfg.Preempt > 0 {
		return e.cfg.Preempt
	}
	if e.cfg.Preempt < 0 {
		return 0
	}
	return 2
}

// runnable: the thread can make progress if scheduled now.
func (e *Engine) runnable(st *State, th *Thread) bool {
	if th.done || len(th.frames) == 0 {
		return false
	}
	if th.blocked == "" {
		return true
	}
	switch th.waitMode {
	case 1, 2:
		return e.lockFree(st, th, th.waitLock, th.waitMode)
	case 3:
		return e.tm(st).wg[th.waitLock] <= 0
	case 4:
		if th.timerDue {
			return true
		}
		for _, w := range th.waitChans {
			if e.chanReady(st, w) {
				return true
			}
		}
		return false
	}
	return true
}

func (e *Engine) chanReady(st *State, w waitCh) bool {
	if w.obj == 0 {
		return false
	}
	o := st.obj(w.obj)
	if w.send {
		return len(o.q) < o.qcap || o.closed
	}
	return len(o.q) > 0 || o.closed || (o.timer && e.tm(st).ticks > 0)
}

// lockFree: mode 1 read, 2 write. Go's RWMutex: a waiting writer blocks new readers.
func (e *Engine) lockFree(st *State, th *Thread, k lockID, mode int) bool {
	cur := st.lockState(k)
	if mode == 2 {
		return cur == 0
	}
	if cur < 0 {
		return false
	}
	for _, o := range st.threads {
		if o != th && !o.done && o.blocked != "" && o.waitMode == 2 && o.waitLock == k {
			return false
		}
	}
	return true
}

func (e *Engine) schedule(st *State) bool {
	tm := e.tm(st)
	cur := st.threads[st.cur]
	curRun := e.runnable(st, cur)
	if !tm.sw && curRun {
		return true
	}
	var cand []int
	for i, t := range st.threads {
		if e.runnable(st, t) {
			cand = append(cand, i)
		}
	}
	if len(cand) == 0 && tm.ticks > 0 {
		// nothing can run: a pending timer of a waiting select fires (lowest thread first; one per round)
		for i, t := range st.threads {
			if !t.done && t.blocked != "" && t.waitTimer {
				t.timerDue = true
				cand = append(cand, i)
				break
			}
		}
	}
	if len(cand) == 0 {
		var stuck []string
		first := -1
		for i, t := range st.threads {
			if !t.done && len(t.frames) > 0 {
				if first < 0 {
					first = i
				}
				fr := t.top()
				pos := token.NoPos
				if fr.ip < len(fr.block.Instrs) {
					pos = fr.block.Instrs[fr.ip].Pos()
				}
				if !pos.IsValid() && len(t.frames) >= 2 { // inside a stubbed callee: use the call site
					cf := t.frames[len(t.frames)-2]
					pos = cf.block.Instrs[cf.ip].Pos()
				}
				stuck = append(stuck, fmt.Sprintf("%s in %s [%s]", t.blocked, shortFn(fr.fn.String()), e.srcLine(pos)))
			}
		}
		if first < 0 {
			return false // every thread finished
		}
		sort.Strings(stuck)
		st.cur = first
		fr := st.threads[first].top()
		pos := token.NoPos
		if fr.ip < len(fr.block.Instrs) {
			pos = fr.block.Instrs[fr.ip].Pos()
		}
		e.oblig++
		e.report(st, "deadlock", fr.fn.String(), strings.Join(stuck, " ; "), pos, e.tb.tt, "sat")
		return false
	}
	if curRun && tm.preempts >= e.preemptBound() {
		cand = []int{st.cur}
	}
	st.choiceSeq = 0
	k := cand[e.choose(st, len(cand), "sched")]
	if curRun && k != st.cur {
		tm.preempts++
	}
	tm.sw = false
	st.cur = k
	st.threads[k].blocked = ""
	if !st.threads[k].timerDue {
		st.threads[k].waitTimer = false
	}
	return true
}

func shortFn(s string) string { return strings.ReplaceAll(s, modPath, "packet") }

func (e *Engine) spawn(st *State, fv FuncV, args []Val) {
	e.tm(st)
	parent := st.threads[st.cur]
	th := &Thread{id: len(st.threads), name: fv.Fn.Name()}
	th.vc = vcJoin(parent.vc, nil)
	th.tick()
	parent.tick()
	st.threads = append(st.threads, th)
	saved := st.cur
	e.pushFrame(st, th, fv.Fn, args, fv.Bind, nil)
	st.cur = saved
}

// offer: first visit of a switch-point instruction: let the scheduler choose, the instruction is re-executed.
func (e *Engine) offer(st *State, th *Thread) {
	th.syncN++
	if len(st.threads) == 1 {
		return
	}
	if !th.atSwitch {
		th.atSwitch = true
		e.tm(st).sw = true
		panic(threadYield{})
	}
}

func (e *Engine) threadBlock(st *State, th *Thread, why string) {
	th.blocked = why
	th.atSwitch = true
	e.tm(st).sw = true
	panic(threadYield{})
}

func (e *Engine) threadIntrinsic(st *State, th *Thread, name string, fn *ssa.Function, args []Val) (Val, bool) {
	tm := e.tm(st)
	switch name {
	case "(*sync.Mutex).Lock", "(*sync.RWMutex).Lock":
		e.acquire(st, th, fn, args, 2)
		return nil, true
	case "(*sync.RWMutex).RLock":
		e.acquire(st, th, fn, args, 1)
		return nil, true
	case "(*sync.Mutex).Unlock", "(*sync.RWMutex).Unlock":
		e.release(st, th, fn, args, 2)
		return nil, true
	case "(*sync.RWMutex).RUnlock":
		e.release(st, th, fn, args, 1)
		return nil, true
	case "(*sync.WaitGroup).Add":
		k := lockKey(args[0].(PtrV))
		d := args[1].(IntV).T
		if !d.IsConst() {
			panic(engineErr("symbolic WaitGroup.Add"))
		}
		tm.wg[k] += int(int64(d.C))
		return nil, true
	case "(*sync.WaitGroup).Done":
		k := lockKey(args[0].(PtrV))
		tm.wg[k]--
		tm.wgVC[k] = vcJoin(tm.wgVC[k], th.vc)
		th.tick()
		return nil, true
	case "(*sync.WaitGroup).Wait":
		k := lockKey(args[0].(PtrV))
		e.offer(st, th)
		if tm.wg[k] > 0 {
			th.waitMode, th.waitLock = 3, k
			e.threadBlock(st, th, "WaitGroup.Wait")
		}
		th.atSwitch = false
		th.vc = vcJoin(th.vc, tm.wgVC[k])
		return nil, true
	case "runtime.Gosched":
		return nil, true
	}
	if strings.HasPrefix(name, "sync/atomic.") || strings.HasPrefix(name, "(*sync/atomic.") {
		if f, ok := intrinsicTab[name]; ok {
			tm.nolog = true
			defer func() { tm.nolog = false }()
			return f(e, st, th, fn, args), true
		}
	}
	return nil, false
}

func (e *Engine) acquire(st *State, th *Thread, fn *ssa.Function, args []Val, mode int) {
	p := args[0].(PtrV)
	if p.Obj == 0 {
		e.oblige(st, e.tb.ff, "nil-dereference", fn.Pos(), "lock of nil mutex")
	}
	k := lockKey(p)
	e.offer(st, th)
	tm := e.tm(st)
	if !e.lockFree(st, th, k, mode) {
		th.waitMode, th.waitLock = mode, k
		what := "Lock"
		if mode == 1 {
			what = "RLock"
		}
		e.threadBlock(st, th, what)
	}
	th.atSwitch = false
	cur := st.lockState(k)
	if mode == 2 {
		st.setLock(k, -1)
		th.vc = vcJoin(th.vc, vcJoin(tm.lockW[k], tm.lockR[k]))
	} else {
		st.setLock(k, cur+1)
		th.vc = vcJoin(th.vc, tm.lockW[k])
	}
}

func (e *Engine) release(st *State, th *Thread, fn *ssa.Function, args []Val, mode int) {
	p := args[0].(PtrV)
	k := lockKey(p)
	tm := e.tm(st)
	cur := st.lockState(k)
	if mode == 2 && cur != -1 || mode == 1 && cur <= 0 {
		e.oblige(st, e.tb.ff, "unlock-of-unlocked-mutex", fn.Pos(), fn.Name())
	}
	if mode == 2 {
		st.setLock(k, 0)
		tm.lockW[k] = vcJoin(tm.lockW[k], th.vc)
	} else {
		st.setLock(k, cur-1)
		tm.lockR[k] = vcJoin(tm.lockR[k], th.vc)
	}
	th.tick()
}

// chanSync: happens-before through a channel operation (over-approximated: one clock per channel).
func (e *Engine) chanSync(st *State, th *Thread, obj int, send bool) {
	tm := e.tm(st)
	if send {
		tm.chanVC[obj] = vcJoin(tm.chanVC[obj], th.vc)
		th.tick()
	} else {
		th.vc = vcJoin(th.vc, tm.chanVC[obj])
	}
}

func (e *Engine) logAccess(st *State, p PtrV, write bool) {
	if st.tm == nil || st.tm.nolog || len(st.threads) == 1 || e.inInit {
		return
	}
	tm := st.tm
	th := st.threads[st.cur]
	if len(th.frames) == 0 {
		return
	}
	path := ""
	if p.Idx == nil {
		path = fmt.Sprint(p.Path)
	}
	ents := tm.acc[p.Obj]
	site := ""
	mk := func() string {
		if site == "" {
			fr := th.top()
			pos := token.NoPos
			if fr.ip < len(fr.block.Instrs) {
				pos = fr.block.Instrs[fr.ip].Pos()
			}
			if !pos.IsValid() {
				pos = fr.fn.Pos()
			}
			site = shortFn(fr.fn.String()) + " [" + e.srcLine(pos) + "]"
		}
		return site
	}
	mine := -1
	for i, en := range ents {
		if en.tid == th.id {
			if en.path == path && en.write == write {
				mine = i
			}
			continue
		}
		if !(write || en.write) || en.clk <= vcGet(th.vc, en.tid) {
			continue
		}
		if !pathOverlap(en.path, path) {
			continue
		}
		a, b := mk(), en.site
		if b < a {
			a, b = b, a
		}
		e.oblig++
		fr := th.top()
		pos := token.NoPos
		if fr.ip < len(fr.block.Instrs) {
			pos = fr.block.Instrs[fr.ip].Pos()
		}
		e.report(st, "data-race", fr.fn.String(), a+" <-> "+b, pos, e.tb.tt, "sat")
	}
	ne := accEntry{tid: th.id, path: path, write: write, clk: vcGet(th.vc, th.id)}
	if mine >= 0 {
		if ents[mine].clk == ne.clk {
			return
		}
		ne.site = mk()
		c := append([]accEntry{}, ents...)
		c[mine] = ne
		tm.acc[p.Obj] = c
		return
	}
	ne.site = mk()
	tm.acc[p.Obj] = append(ents[:len(ents):len(ents)], ne)
}

// pathOverlap: "[1 2]" style paths: one is a prefix of the other (field / element containment).
func pathOverlap(a, b string) bool {
	if a == b {
		return true
	}
	ta, tb := strings.TrimSuffix(a, "]"), strings.TrimSuffix(b, "]")
	if ta == "[" || tb == "[" {
		return true
	}
	return strings.HasPrefix(tb, ta+" ") || strings.HasPrefix(ta, tb+" ")
}
