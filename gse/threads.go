package main

import (
	"golang.org/x/tools/go/ssa"
)

// Thread mode (cooperative threads, context switches at synchronisation
// operations, lockset logging). Filled in by threads_impl.go when built.

type raceLog struct{}

func (e *Engine) schedule(st *State) bool { panic(engineErr("thread mode not available")) }
func (e *Engine) spawn(st *State, fv FuncV, args []Val) {
	panic(engineErr("thread mode not available"))
}
func (e *Engine) threadBlock(st *State, th *Thread, why string) {
	panic(engineErr("thread mode not available"))
}
func (e *Engine) threadIntrinsic(st *State, th *Thread, name string, fn *ssa.Function, args []Val) (Val, bool) {
	return nil, false
}
func (e *Engine) logAccess(st *State, p PtrV, write bool) {}
