package main

import (
	"fmt"
	"os"
	"go/types"
	"math/big"
	"strings"
	"time"

	"golang.org/x/tools/go/ssa"
)

// harnessCall intercepts the verif* functions of the harness prelude.
func (e *Engine) harnessCall(st *State, th *Thread, fn *ssa.Function, args []Val) (Val, bool) {
	tb := e.tb
	switch fn.Name() {
	case "verifInt", "verifU8", "verifU16", "verifU32", "verifU64", "verifI64":
		w, _, _ := intWidth(fn.Signature.Results().At(0).Type())
		seq := st.hseq
		st.hseq++
		name := fmt.Sprintf("in_%d", len(st.inputs))
		st.inputs = append(st.inputs, Input{Kind: "int", Name: name, W: w, Seq: seq})
		return IntV{tb.Var(name, w)}, true
	case "verifBool":
		seq := st.hseq
		st.hseq++
		name := fmt.Sprintf("in_%d", len(st.inputs))
		st.inputs = append(st.inputs, Input{Kind: "bool", Name: name, Seq: seq})
		return BoolV{tb.BoolVar(name)}, true
	case "verifBytes":
		n := args[0].(IntV).T
		if !n.IsConst() {
			panic(engineErr("verifBytes: size must be concrete"))
		}
		seq := st.hseq
		st.hseq++
		name := fmt.Sprintf("buf_%d", len(st.inputs))
		st.inputs = append(st.inputs, Input{Kind: "bytes", Name: name, N: int(n.C), Seq: seq})
		o := st.newBytes(e, &Arr{kind: aBase, name: name}, n, "verifBytes")
		return SliceV{Obj: o.id, Off: tb.BV(0, 64), Len: n, Cap: n}, true
	case "verifString":
		n := args[0].(IntV).T
		if !n.IsConst() {
			panic(engineErr("verifString: size must be concrete"))
		}
		seq := st.hseq
		st.hseq++
		name := fmt.Sprintf("buf_%d", len(st.inputs))
		st.inputs = append(st.inputs, Input{Kind: "bytes", Name: name, N: int(n.C), Seq: seq})
		b := make([]*Term, n.C)
		for i := range b {
			b[i] = tb.Select(name, tb.BV(uint64(i), 64))
		}
		if n.C == 0 {
			return StrV{Conc: true}, true
		}
		return StrV{B: b}, true
	case "verifAssume":
		c := args[0].(BoolV).T
		if c.IsTrue() {
			return nil, true
		}
		if e.sat(st, c) == "unsat" {
			panic(pathDead{"assumption"})
		}
		st.addPC(c)
		return nil, true
	case "verifAssert":
		id := args[1].(StrV).S
		e.assert(st, args[0].(BoolV).T, id, fn, false)
		return nil, true
	case "verifAssertCut":
		id := args[1].(StrV).S
		e.assert(st, args[0].(BoolV).T, id, fn, true)
		return nil, true
	case "verifAssertHard":
		id := args[1].(StrV).S
		e.assertHard(st, args[0].(BoolV).T, id, fn)
		return nil, true
	case "verifReach":
		if st.reached == nil {
			st.reached = map[string]bool{}
		}
		st.reached[args[0].(StrV).S] = true
		return nil, true
	case "verifChoose":
		n := args[0].(IntV).T
		k := e.choose(st, int(n.C), "h")
		st.inputs = append(st.inputs, Input{Kind: "const", Name: fmt.Sprintf("choose_%d", len(st.inputs)), Val: uint64(k), Seq: st.hseq})
		st.hseq++
		return IntV{tb.BV(uint64(k), 64)}, true
	case "verifSplit":
		n := int(args[0].(IntV).T.C)
		if e.splitN != 0 && e.splitN != n {
			panic(engineErr("verifSplit(%d) but job declared %d", n, e.splitN))
		}
		if e.splitN == 0 {
			panic(engineErr("verifSplit in a harness without declared split"))
		}
		st.inputs = append(st.inputs, Input{Kind: "const", Name: fmt.Sprintf("split_%d", len(st.inputs)), Val: uint64(e.splitK), Seq: st.hseq})
		st.hseq++
		return IntV{tb.BV(uint64(e.splitK), 64)}, true
	case "verifTagInput":
		s := args[0].(SliceV)
		if s.Obj != 0 {
			o := st.mut(s.Obj)
			o.tag = "input"
			o.limit = tb.Bin("bvadd", s.Off, s.Len)
		}
		return nil, true
	case "verifCapFor":
		return args[1], true
	case "verifConcretize":
		v := args[0].(IntV).T
		return IntV{tb.BV(e.concretize(st, v), v.W)}, true
	case "verifNoInputAlias":
		e.checkNoAlias(st, args[0], args[1].(StrV).S, fn)
		return nil, true
	case "verifInside":
		// verifInside(outer, inner []byte, id): inner is a sub-slice of outer's visible part (or nil)
		outer, inner := args[0].(SliceV), args[1].(SliceV)
		id := args[2].(StrV).S
		if inner.Obj == 0 {
			return nil, true
		}
		if inner.Obj != outer.Obj {
			// a different backing object is acceptable only for an empty slice
			e.assert(st, tb.Cmp("=", inner.Len, tb.BV(0, 64)), id+":provenance", fn, false)
			return nil, true
		}
		ok := tb.And(tb.Cmp("bvule", outer.Off, inner.Off), tb.Cmp("bvule", tb.Bin("bvadd", inner.Off, inner.Len), tb.Bin("bvadd", outer.Off, outer.Len)))
		e.assert(st, ok, id+":inside", fn, false)
		return nil, true
	case "verifSameSlice":
		// verifSameSlice(a, b []byte) bool : same backing object, offset and length
		a, b := args[0].(SliceV), args[1].(SliceV)
		if a.Obj != b.Obj {
			return BoolV{tb.Bool(false)}, true
		}
		if a.Obj == 0 {
			return BoolV{tb.tt}, true
		}
		return BoolV{tb.And(tb.Cmp("=", a.Off, b.Off), tb.Cmp("=", a.Len, b.Len))}, true
	case "verifOffset":
		// verifOffset(outer, inner []byte) int : offset of inner within outer, -1 if different object / nil
		outer, inner := args[0].(SliceV), args[1].(SliceV)
		if inner.Obj == 0 || inner.Obj != outer.Obj {
			return IntV{tb.BV(^uint64(0), 64)}, true
		}
		return IntV{tb.Bin("bvsub", inner.Off, outer.Off)}, true
	case "verifTime":
		return e.mkTime(args[0].(IntV).T), true
	case "verifClockRange":
		st.clockLo, st.clockHi = args[0].(IntV).T, args[1].(IntV).T
		return nil, true
	case "verifTimeNS":
		return IntV{timeNS(args[0])}, true
	case "verifAllocCount":
		n := 0
		for _, ev := range st.events {
			if ev.Kind == "alloc" {
				n++
			}
		}
		return IntV{tb.BV(uint64(n), 64)}, true
	case "verifAllocMark":
		// verifAllocMark(on bool): start/stop recording allocation sites
		st.events = append(st.events, Event{Kind: "allocmark", Vals: []Val{args[0]}})
		return nil, true
	case "verifNoAllocSince":
		e.checkNoAlloc(st, args[0].(StrV).S, fn)
		return nil, true
	case "verifIsNative":
		return BoolV{tb.ff}, true
	case "verifChecksumCalls":
		n := 0
		for _, ev := range st.events {
			if ev.Kind == "checksum" {
				n++
			}
		}
		return IntV{tb.BV(uint64(n), 64)}, true
	case "verifChecksumArg", "verifChecksumResult":
		k := int(args[0].(IntV).T.C)
		for _, ev := range st.events {
			if ev.Kind != "checksum" {
				continue
			}
			if k > 0 {
				k--
				continue
			}
			if fn.Name() == "verifChecksumResult" {
				return ev.Vals[1], true
			}
			vals := ev.Vals[0].(ArrV).E
			arr := aZeroArr
			for i, v := range vals {
				arr = e.arrStore(arr, tb.BV(uint64(i), 64), v.(IntV).T)
			}
			nn := tb.BV(uint64(len(vals)), 64)
			o := st.newBytes(e, arr, nn, "checksum-arg")
			return SliceV{Obj: o.id, Off: tb.BV(0, 64), Len: nn, Cap: nn}, true
		}
		panic(engineErr("no such Checksum call"))
	case "verifDebug":
		if iv, ok := args[0].(IntV); ok {
			fmt.Fprintf(os.Stderr, "DEBUG %s size=%d op=%s const=%v\n", args[1].(StrV).S, termSize(iv.T, map[*Term]bool{}), iv.T.Op, iv.T.IsConst())
		}
		return nil, true
	case "verifNote":
		return nil, true
	case "verifPendingGoroutines":
		return IntV{tb.BV(uint64(len(st.pending)), 64)}, true
	case "verifDropGoroutines":
		st.pending = nil
		return nil, true
	}
	if strings.HasPrefix(fn.Name(), "verifStub") {
		return nil, false
	}
	return nil, false
}

// ---------------------------------------------------------------- assertions

func (e *Engine) assert(st *State, cond *Term, id string, fn *ssa.Function, cut bool) {
	e.oblig++
	tb := e.tb
	if cond.IsTrue() {
		e.disch++
		return
	}
	viol := tb.Not(cond)
	caller := "harness"
	if th := st.threads[st.cur]; len(th.frames) > 0 {
		caller = th.top().fn.String()
	}
	if cut {
		g, extra := e.generalise(cond)
		if extra != nil {
			pc := append(append([]*Term{}, st.pc...), extra...)
			r := e.sol.CheckFresh(pc, tb.Not(g))
			if r == "unsat" {
				e.disch++
				return
			}
		}
	}
	var r string
	if cut {
		r = e.sol.CheckFresh(st.pc, viol)
	} else {
		r = e.sat(st, viol)
	}
	if r == "unknown" {
		r = e.hardQuery(st, viol)
	}
	switch r {
	case "unsat":
		e.disch++
		if !cut {
			st.addPC(cond)
		}
		return
	case "sat":
		e.report(st, "assert", caller, id, fn.Pos(), viol, "sat")
	default:
		e.inconc = append(e.inconc, fmt.Sprintf("%s: assertion %s undecided (solver unknown)", e.harness, id))
	}
	// a failed assertion does not stop the native execution (verifAssert records and continues), so the path
	// goes on unconstrained: later assertions (possibly of other properties) are still evaluated
}

// assertHard: arithmetic-heavy assertion sent straight to the one-shot portfolio.
func (e *Engine) assertHard(st *State, cond *Term, id string, fn *ssa.Function) {
	e.oblig++
	if cond.IsTrue() {
		e.disch++
		return
	}
	viol := e.tb.Not(cond)
	caller := "harness"
	if th := st.threads[st.cur]; len(th.frames) > 0 {
		caller = th.top().fn.String()
	}
	switch e.hardQuery(st, viol) {
	case "unsat":
		e.disch++
	case "sat":
		e.report(st, "assert", caller, id, fn.Pos(), viol, "sat")
	default:
		e.inconc = append(e.inconc, fmt.Sprintf("%s: assertion %s undecided (portfolio timeout)", e.harness, id))
	}
}

// hardQuery: one-shot portfolio (z3, z3-new, cvc5 on bit-vectors, z3 on the integer rendering).
func (e *Engine) hardQuery(st *State, extra *Term) string {
	jobs := map[string][2]string{
		"cvc5-bv":   {"cvc5", scriptBV(st.pc, extra, true)},
		"z3-new-bv": {"z3-new", scriptBV(st.pc, extra, false)},
	}
	if s, err := scriptInt(st.pc, extra); err == nil {
		jobs["z3-int"] = [2]string{"z3", s}
	}
	if d := os.Getenv("GSE_DUMP_HARD"); d != "" {
		for k, j := range jobs {
			os.WriteFile(fmt.Sprintf("%s/%s_%d.smt2", d, k, e.stats.OneShot), []byte(j[1]), 0o644)
		}
	}
	r, who := Race(time.Duration(e.cfg.HardTimeout)*time.Second, jobs, e.stats)
	if os.Getenv("GSE_VERBOSE") != "" {
		fmt.Fprintf(os.Stderr, "  hard query: %s by %s\n", r, who)
	}
	return r
}

// ---- cut-point generalisation (replace the maximal compound nodes shared by both sides of an equality)

func cone(t *Term, m map[*Term]bool) {
	if m[t] {
		return
	}
	m[t] = true
	for _, a := range t.Args {
		cone(a, m)
	}
}

func (e *Engine) subst(t *Term, m map[*Term]*Term, memo map[*Term]*Term) *Term {
	if r, ok := m[t]; ok {
		return r
	}
	if r, ok := memo[t]; ok {
		return r
	}
	if len(t.Args) == 0 {
		return t
	}
	na := make([]*Term, len(t.Args))
	ch := false
	for i, a := range t.Args {
		na[i] = e.subst(a, m, memo)
		ch = ch || na[i] != a
	}
	r := t
	if ch {
		r = e.tb.mk(&Term{Op: t.Op, Args: na, W: t.W, C: t.C, Name: t.Name, P1: t.P1, P2: t.P2})
	}
	memo[t] = r
	return r
}

func (e *Engine) generalise(cond *Term) (*Term, []*Term) {
	if cond.Op != "=" {
		return cond, nil
	}
	l, r := map[*Term]bool{}, map[*Term]bool{}
	cone(cond.Args[0], l)
	cone(cond.Args[1], r)
	shared := map[*Term]bool{}
	for t := range l {
		if r[t] && t.W > 0 && t.Op != "const" && t.Op != "select" && t.Op != "var" {
			shared[t] = true
		}
	}
	inner := map[*Term]bool{}
	for t := range shared {
		for _, a := range t.Args {
			inner[a] = true
		}
	}
	m := map[*Term]*Term{}
	var extra []*Term
	ubm := map[*Term]*big.Int{}
	for t := range shared {
		if inner[t] || t == cond.Args[0] || t == cond.Args[1] {
			continue
		}
		if termSize(t, map[*Term]bool{}) <= 8 {
			continue
		}
		fresh := e.tb.Var(fmt.Sprintf("cut_%d", t.id), t.W)
		m[t] = fresh
		bound := bigUB(t, ubm)
		if bound.IsUint64() {
			extra = append(extra, e.tb.Cmp("bvule", fresh, e.tb.BV(bound.Uint64(), t.W)))
		}
	}
	if len(m) == 0 {
		return cond, nil
	}
	if extra == nil {
		extra = []*Term{e.tb.tt}
	}
	return e.subst(cond, m, map[*Term]*Term{}), extra
}

// ---------------------------------------------------------------- provenance walk (C10)

// checkNoAlias walks everything reachable from root and reports any reference to an object tagged "input".
func (e *Engine) checkNoAlias(st *State, root Val, id string, fn *ssa.Function) {
	seen := map[int]bool{}
	var hit string
	var walk func(v Val, path string)
	visitObj := func(oid int, path string) {
		if oid == 0 || seen[oid] || hit != "" {
			return
		}
		seen[oid] = true
		o := st.obj(oid)
		if o.tag == "input" {
			hit = path
			return
		}
		switch o.kind {
		case okVal:
			walk(o.v, path)
		case okMap:
			for _, en := range o.ents {
				walk(en.K, path+"[key]")
				walk(en.V, path+"[val]")
			}
		case okChan:
			for _, q := range o.q {
				walk(q, path+"<-")
			}
		}
	}
	walk = func(v Val, path string) {
		if hit != "" {
			return
		}
		switch x := v.(type) {
		case PtrV:
			visitObj(x.Obj, path+"*")
		case SliceV:
			visitObj(x.Obj, path+"[]")
		case MapV:
			visitObj(x.Obj, path)
		case ChanV:
			visitObj(x.Obj, path)
		case EmbV:
			visitObj(x.Obj, path)
		case StructV:
			for i, f := range x.F {
				walk(f, fmt.Sprintf("%s.%d", path, i))
			}
		case ArrV:
			for i, f := range x.E {
				walk(f, fmt.Sprintf("%s[%d]", path, i))
			}
		case TupleV:
			for _, f := range x {
				walk(f, path)
			}
		case IfaceV:
			if x.T != nil {
				walk(x.V, path+".(iface)")
			}
		case FuncV:
			for _, b := range x.Bind {
				walk(b, path+".closure")
			}
		}
	}
	walk(root, "root")
	e.oblig++
	if hit == "" {
		e.disch++
		return
	}
	e.report(st, "assert", "harness", id+": retained state references the packet buffer via "+normPath(hit), fn.Pos(), e.tb.tt, "sat")
}

func normPath(p string) string { return p }

// checkNoAlloc: no allocation event recorded since the last verifAllocMark(true).
func (e *Engine) checkNoAlloc(st *State, id string, fn *ssa.Function) {
	start := -1
	for i, ev := range st.events {
		if ev.Kind == "allocmark" {
			start = i
		}
	}
	e.oblig++
	var sites []string
	for i := start + 1; i < len(st.events); i++ {
		if st.events[i].Kind == "alloc" {
			sites = append(sites, st.events[i].Vals[0].(StrV).S)
		}
	}
	if len(sites) == 0 {
		e.disch++
		return
	}
	for _, s := range sites {
		e.allocSites[s]++
		e.report(st, "assert", "harness", id+": allocation site reached: "+stripPos(s), fn.Pos(), e.tb.tt, "sat")
	}
}

func stripPos(s string) string {
	if i := strings.Index(s, " @"); i >= 0 {
		return s[:i]
	}
	return s
}

var _ = types.Universe
