package main

// Hash-consed term DAG (bit-vectors, booleans, selects on base arrays) with
// constant folding, a small algebraic simplifier, base+delta index normal
// form, unsigned intervals, SMT-LIB printers (BV and Int) and an evaluator.

import (
	"fmt"
	"math/big"
	"sort"
	"strings"
)

// Sort: W>0 bit-vector of width W; W==0 Bool.
type Term struct {
	Op     string
	Args   []*Term
	W      int
	C      uint64 // constant value (W<=64) / bool
	Name   string // var name / base array name (select)
	P1, P2 int    // extract hi/lo ; zext/sext amount
	id     int
}

type termKey struct {
	op         string
	w          int
	c          uint64
	name       string
	p1, p2     int
	a0, a1, a2 int
}

// TB is a term builder with its own hash-consing table (one per engine).
type TB struct {
	tab map[termKey]*Term
	n   int
	tt  *Term
	ff  *Term
}

func NewTB() *TB {
	tb := &TB{tab: map[termKey]*Term{}}
	tb.tt = tb.mk(&Term{Op: "true", W: 0, C: 1})
	tb.ff = tb.mk(&Term{Op: "false", W: 0})
	return tb
}

func (tb *TB) mk(t *Term) *Term {
	k := termKey{op: t.Op, w: t.W, c: t.C, name: t.Name, p1: t.P1, p2: t.P2}
	switch len(t.Args) {
	case 3:
		k.a2 = t.Args[2].id
		fallthrough
	case 2:
		k.a1 = t.Args[1].id
		fallthrough
	case 1:
		k.a0 = t.Args[0].id
	case 0:
	default:
		panic("term arity")
	}
	if x, ok := tb.tab[k]; ok {
		return x
	}
	tb.n++
	t.id = tb.n
	tb.tab[k] = t
	return t
}

func mask(w int) uint64 {
	if w >= 64 {
		return ^uint64(0)
	}
	return (uint64(1) << uint(w)) - 1
}
func sext(v uint64, w int) int64 {
	if w >= 64 {
		return int64(v)
	}
	if v&(1<<uint(w-1)) != 0 {
		return int64(v | ^mask(w))
	}
	return int64(v)
}

func (tb *TB) BV(v uint64, w int) *Term { return tb.mk(&Term{Op: "const", W: w, C: v & mask(w)}) }
func (tb *TB) Bool(b bool) *Term {
	if b {
		return tb.tt
	}
	return tb.ff
}
func (tb *TB) Var(name string, w int) *Term { return tb.mk(&Term{Op: "var", W: w, Name: name}) }
func (tb *TB) BoolVar(name string) *Term    { return tb.mk(&Term{Op: "var", W: 0, Name: name}) }
func (t *Term) IsConst() bool               { return t.Op == "const" || t.Op == "true" || t.Op == "false" }
func (t *Term) IsTrue() bool                { return t.Op == "true" }
func (t *Term) IsFalse() bool               { return t.Op == "false" }

func foldBin(op string, x, y uint64, w int) (uint64, bool) {
	switch op {
	case "bvadd":
		return x + y, true
	case "bvsub":
		return x - y, true
	case "bvmul":
		return x * y, true
	case "bvand":
		return x & y, true
	case "bvor":
		return x | y, true
	case "bvxor":
		return x ^ y, true
	case "bvshl":
		if y >= uint64(w) {
			return 0, true
		}
		return x << y, true
	case "bvlshr":
		if y >= uint64(w) {
			return 0, true
		}
		return (x & mask(w)) >> y, true
	case "bvashr":
		if y >= uint64(w) {
			y = uint64(w - 1)
		}
		return uint64(sext(x, w) >> y), true
	case "bvudiv":
		if y != 0 {
			return x / y, true
		}
		return mask(w), true
	case "bvurem":
		if y != 0 {
			return x % y, true
		}
		return x, true
	case "bvsdiv":
		if y != 0 {
			a, b := sext(x, w), sext(y, w)
			if b == -1 {
				return uint64(-a), true
			}
			return uint64(a / b), true
		}
	case "bvsrem":
		if y != 0 {
			a, b := sext(x, w), sext(y, w)
			if b == -1 {
				return 0, true
			}
			return uint64(a % b), true
		}
	}
	return 0, false
}

func (tb *TB) Bin(op string, a, b *Term) *Term {
	w := a.W
	if a.W != b.W {
		panic(fmt.Sprintf("Bin %s width mismatch %d %d", op, a.W, b.W))
	}
	if a.IsConst() && b.IsConst() {
		if v, ok := foldBin(op, a.C, b.C, w); ok {
			return tb.BV(v, w)
		}
	}
	switch op {
	case "bvadd", "bvor", "bvxor":
		if a.IsConst() && a.C == 0 {
			return b
		}
		if b.IsConst() && b.C == 0 {
			return a
		}
	case "bvsub", "bvshl", "bvlshr", "bvashr":
		if b.IsConst() && b.C == 0 {
			return a
		}
	case "bvand":
		if (a.IsConst() && a.C == 0) || (b.IsConst() && b.C == 0) {
			return tb.BV(0, w)
		}
		if b.IsConst() && b.C == mask(w) {
			return a
		}
		if a.IsConst() && a.C == mask(w) {
			return b
		}
		if a == b {
			return a
		}
	case "bvmul":
		if (a.IsConst() && a.C == 0) || (b.IsConst() && b.C == 0) {
			return tb.BV(0, w)
		}
		if a.IsConst() && a.C == 1 {
			return b
		}
		if b.IsConst() && b.C == 1 {
			return a
		}
	}
	if op == "bvor" && a == b {
		return a
	}
	if op == "bvsub" || op == "bvxor" {
		if a == b {
			return tb.BV(0, w)
		}
	}
	// x - c  ==> x + (-c)   (keeps the base+delta normal form)
	if op == "bvsub" && b.IsConst() {
		return tb.Bin("bvadd", a, tb.BV(-b.C, w))
	}
	if op == "bvadd" {
		// constants to the right, (x + c1) + c2 folded
		if a.IsConst() && !b.IsConst() {
			a, b = b, a
		}
		if b.IsConst() && a.Op == "bvadd" && a.Args[1].IsConst() {
			return tb.Bin("bvadd", a.Args[0], tb.BV(a.Args[1].C+b.C, w))
		}
		// (x + c1) + y  ==> (x + y) + c1
		if !b.IsConst() && a.Op == "bvadd" && a.Args[1].IsConst() {
			return tb.Bin("bvadd", tb.Bin("bvadd", a.Args[0], b), a.Args[1])
		}
		if !b.IsConst() && b.Op == "bvadd" && b.Args[1].IsConst() {
			return tb.Bin("bvadd", tb.Bin("bvadd", a, b.Args[0]), b.Args[1])
		}
	}
	if op == "bvsub" {
		// (x + c1) - (x + c2) with the same base
		ba, da := baseDelta(a)
		bb, db := baseDelta(b)
		if ba == bb {
			return tb.BV(da-db, w)
		}
		// (x + c) - y ==> (x - y) + c
		if a.Op == "bvadd" && a.Args[1].IsConst() {
			return tb.Bin("bvadd", tb.Bin("bvsub", a.Args[0], b), a.Args[1])
		}
		// x - (y + c) ==> (x - y) - c
		if b.Op == "bvadd" && b.Args[1].IsConst() {
			return tb.Bin("bvadd", tb.Bin("bvsub", a, b.Args[0]), tb.BV(-b.Args[1].C, w))
		}
		// (x + y) - x ==> y
		if a.Op == "bvadd" {
			if a.Args[0] == b {
				return a.Args[1]
			}
			if a.Args[1] == b {
				return a.Args[0]
			}
		}
	}
	return tb.mk(&Term{Op: op, Args: []*Term{a, b}, W: w})
}

func (tb *TB) Cmp(op string, a, b *Term) *Term {
	if a.W != b.W {
		panic(fmt.Sprintf("Cmp %s width mismatch %d %d", op, a.W, b.W))
	}
	if a.IsConst() && b.IsConst() {
		x, y := a.C, b.C
		switch op {
		case "=":
			return tb.Bool(x == y)
		case "bvult":
			return tb.Bool(x < y)
		case "bvule":
			return tb.Bool(x <= y)
		case "bvslt":
			return tb.Bool(sext(x, a.W) < sext(y, a.W))
		case "bvsle":
			return tb.Bool(sext(x, a.W) <= sext(y, a.W))
		}
	}
	if a == b {
		switch op {
		case "=", "bvule", "bvsle":
			return tb.tt
		case "bvult", "bvslt":
			return tb.ff
		}
	}
	if a.W == 0 && op == "=" {
		return tb.Iff(a, b)
	}
	if op == "=" {
		ba, da := baseDelta(a)
		bb, db := baseDelta(b)
		if ba == bb && ba != nil {
			return tb.Bool(da == db)
		}
		if a.IsConst() {
			a, b = b, a
		}
		// zext(x) = c with c out of range
		if b.IsConst() && a.Op == "zext" {
			in := a.Args[0]
			if b.C > mask(in.W) {
				return tb.ff
			}
			return tb.Cmp("=", in, tb.BV(b.C, in.W))
		}
		if b.IsConst() && a.Op == "ite" && a.Args[1].IsConst() && a.Args[2].IsConst() {
			t, f := a.Args[1].C == b.C, a.Args[2].C == b.C
			switch {
			case t && f:
				return tb.tt
			case t:
				return a.Args[0]
			case f:
				return tb.Not(a.Args[0])
			default:
				return tb.ff
			}
		}
		if a.id > b.id && !b.IsConst() {
			a, b = b, a
		}
	}
	// unsigned comparisons decided by intervals
	if op == "bvult" || op == "bvule" {
		if b.IsConst() {
			if hi, ok := smallUB(a); ok {
				if (op == "bvult" && hi < b.C) || (op == "bvule" && hi <= b.C) {
					return tb.tt
				}
			}
			if op == "bvult" && b.C == 0 {
				return tb.ff
			}
		}
		if a.IsConst() {
			if a.C == 0 && op == "bvule" {
				return tb.tt
			}
			if hi, ok := smallUB(b); ok {
				if (op == "bvult" && a.C >= hi) || (op == "bvule" && a.C > hi) {
					return tb.ff
				}
			}
		}
	}
	if op == "bvslt" || op == "bvsle" {
		// both provably small non-negative: same as unsigned
		if ha, ok := smallUB(a); ok && ha <= mask(a.W)>>1 {
			if hb, ok := smallUB(b); ok && hb <= mask(b.W)>>1 {
				if op == "bvslt" {
					return tb.Cmp("bvult", a, b)
				}
				return tb.Cmp("bvule", a, b)
			}
		}
	}
	return tb.mk(&Term{Op: op, Args: []*Term{a, b}, W: 0})
}

// smallUB: cheap structural unsigned upper bound.
func smallUB(t *Term) (uint64, bool) {
	switch t.Op {
	case "const":
		return t.C, true
	case "zext":
		if h, ok := smallUB(t.Args[0]); ok {
			return h, true
		}
		return mask(t.Args[0].W), true
	case "select":
		return 255, true
	case "bvand":
		ha, oka := smallUB(t.Args[0])
		hb, okb := smallUB(t.Args[1])
		switch {
		case oka && okb:
			if ha < hb {
				return ha, true
			}
			return hb, true
		case oka:
			return ha, true
		case okb:
			return hb, true
		}
	case "bvlshr":
		if t.Args[1].IsConst() {
			if h, ok := smallUB(t.Args[0]); ok {
				if t.Args[1].C >= 64 {
					return 0, true
				}
				return h >> t.Args[1].C, true
			}
			if t.Args[1].C < 64 {
				return mask(t.W) >> t.Args[1].C, true
			}
		}
	case "bvshl":
		if t.Args[1].IsConst() && t.Args[1].C < 32 {
			if h, ok := smallUB(t.Args[0]); ok && h < (1<<31) {
				v := h << t.Args[1].C
				if v <= mask(t.W) {
					return v, true
				}
			}
		}
	case "bvor", "bvxor":
		ha, oka := smallUB(t.Args[0])
		hb, okb := smallUB(t.Args[1])
		if oka && okb {
			m := ha | hb
			// round up to 2^k-1
			r := uint64(0)
			for r < m {
				r = r<<1 | 1
			}
			return r, true
		}
	case "bvadd":
		ha, oka := smallUB(t.Args[0])
		hb, okb := smallUB(t.Args[1])
		if oka && okb && ha < (1<<62) && hb < (1<<62) && ha+hb <= mask(t.W) {
			return ha + hb, true
		}
	case "bvmul":
		ha, oka := smallUB(t.Args[0])
		hb, okb := smallUB(t.Args[1])
		if oka && okb && ha < (1<<31) && hb < (1<<31) && ha*hb <= mask(t.W) {
			return ha * hb, true
		}
	case "ite":
		ha, oka := smallUB(t.Args[1])
		hb, okb := smallUB(t.Args[2])
		if oka && okb {
			if ha > hb {
				return ha, true
			}
			return hb, true
		}
	case "extract":
		if t.P2 == 0 {
			if h, ok := smallUB(t.Args[0]); ok && h <= mask(t.W) {
				return h, true
			}
		}
	case "bvurem":
		if t.Args[1].IsConst() && t.Args[1].C > 0 {
			return t.Args[1].C - 1, true
		}
	case "bvudiv":
		if t.Args[1].IsConst() && t.Args[1].C > 0 {
			if h, ok := smallUB(t.Args[0]); ok {
				return h / t.Args[1].C, true
			}
		}
	}
	return 0, false
}

func (tb *TB) Not(a *Term) *Term {
	switch a.Op {
	case "true":
		return tb.ff
	case "false":
		return tb.tt
	case "not":
		return a.Args[0]
	}
	return tb.mk(&Term{Op: "not", Args: []*Term{a}, W: 0})
}
func (tb *TB) And(a, b *Term) *Term {
	if a.Op == "false" || b.Op == "false" {
		return tb.ff
	}
	if a.Op == "true" {
		return b
	}
	if b.Op == "true" {
		return a
	}
	if a == b {
		return a
	}
	if tb.Not(a) == b {
		return tb.ff
	}
	return tb.mk(&Term{Op: "and", Args: []*Term{a, b}, W: 0})
}
func (tb *TB) Or(a, b *Term) *Term {
	if a.Op == "true" || b.Op == "true" {
		return tb.tt
	}
	if a.Op == "false" {
		return b
	}
	if b.Op == "false" {
		return a
	}
	if a == b {
		return a
	}
	if tb.Not(a) == b {
		return tb.tt
	}
	return tb.mk(&Term{Op: "or", Args: []*Term{a, b}, W: 0})
}
func (tb *TB) Implies(a, b *Term) *Term { return tb.Or(tb.Not(a), b) }
func (tb *TB) Iff(a, b *Term) *Term {
	if a == b {
		return tb.tt
	}
	if a.IsConst() {
		if a.Op == "true" {
			return b
		}
		return tb.Not(b)
	}
	if b.IsConst() {
		if b.Op == "true" {
			return a
		}
		return tb.Not(a)
	}
	if a.id > b.id {
		a, b = b, a
	}
	return tb.mk(&Term{Op: "=", Args: []*Term{a, b}, W: 0})
}
func (tb *TB) AndN(ts ...*Term) *Term {
	r := tb.tt
	for _, t := range ts {
		r = tb.And(r, t)
	}
	return r
}
func (tb *TB) Ite(c, a, b *Term) *Term {
	if c.Op == "true" {
		return a
	}
	if c.Op == "false" {
		return b
	}
	if a == b {
		return a
	}
	if a.W == 0 {
		if a.Op == "true" && b.Op == "false" {
			return c
		}
		if a.Op == "false" && b.Op == "true" {
			return tb.Not(c)
		}
		return tb.Or(tb.And(c, a), tb.And(tb.Not(c), b))
	}
	if c.Op == "not" {
		return tb.Ite(c.Args[0], b, a)
	}
	return tb.mk(&Term{Op: "ite", Args: []*Term{c, a, b}, W: a.W})
}
func (tb *TB) BVNot(a *Term) *Term {
	if a.IsConst() {
		return tb.BV(^a.C, a.W)
	}
	if a.Op == "bvnot" {
		return a.Args[0]
	}
	return tb.mk(&Term{Op: "bvnot", Args: []*Term{a}, W: a.W})
}
func (tb *TB) Neg(a *Term) *Term { return tb.Bin("bvsub", tb.BV(0, a.W), a) }
func (tb *TB) ZExt(a *Term, w int) *Term {
	if w == a.W {
		return a
	}
	if w < a.W {
		panic("zext narrows")
	}
	if a.IsConst() {
		return tb.BV(a.C, w)
	}
	if a.Op == "zext" {
		return tb.ZExt(a.Args[0], w)
	}
	return tb.mk(&Term{Op: "zext", Args: []*Term{a}, W: w, P1: w - a.W})
}
func (tb *TB) SExt(a *Term, w int) *Term {
	if w == a.W {
		return a
	}
	if a.IsConst() {
		return tb.BV(uint64(sext(a.C, a.W)), w)
	}
	if a.Op == "zext" { // zero-extended value is non-negative
		return tb.ZExt(a.Args[0], w)
	}
	return tb.mk(&Term{Op: "sext", Args: []*Term{a}, W: w, P1: w - a.W})
}
func (tb *TB) Extract(a *Term, hi, lo int) *Term {
	if lo == 0 && hi == a.W-1 {
		return a
	}
	if a.IsConst() {
		return tb.BV(a.C>>uint(lo), hi-lo+1)
	}
	if (a.Op == "zext" || a.Op == "sext") && hi < a.Args[0].W {
		return tb.Extract(a.Args[0], hi, lo)
	}
	if a.Op == "zext" && lo >= a.Args[0].W {
		return tb.BV(0, hi-lo+1)
	}
	if a.Op == "zext" && lo == 0 && hi >= a.Args[0].W {
		return tb.ZExt(a.Args[0], hi+1)
	}
	if lo == 0 {
		switch a.Op {
		case "bvadd", "bvsub", "bvmul", "bvand", "bvor", "bvxor":
			// low bits of these only depend on the low bits of the operands
			if a.Args[0].Op == "zext" || a.Args[1].Op == "zext" || a.Args[0].IsConst() || a.Args[1].IsConst() {
				return tb.Bin(a.Op, tb.Extract(a.Args[0], hi, 0), tb.Extract(a.Args[1], hi, 0))
			}
		case "bvshl":
			if a.Args[1].IsConst() {
				return tb.Bin("bvshl", tb.Extract(a.Args[0], hi, 0), tb.BV(a.Args[1].C, hi+1))
			}
		}
	}
	return tb.mk(&Term{Op: "extract", Args: []*Term{a}, W: hi - lo + 1, P1: hi, P2: lo})
}

// Select on a named base array (Array (_ BitVec 64) (_ BitVec 8)).
func (tb *TB) Select(base string, idx *Term) *Term {
	return tb.mk(&Term{Op: "select", Name: base, Args: []*Term{idx}, W: 8})
}

// Resize converts to width w (truncate / zero- or sign-extend).
func (tb *TB) Resize(a *Term, w int, signed bool) *Term {
	switch {
	case w == a.W:
		return a
	case w < a.W:
		return tb.Extract(a, w-1, 0)
	case signed:
		return tb.SExt(a, w)
	}
	return tb.ZExt(a, w)
}

// distinct reports whether two index terms are provably different / provably
// equal (same base, constant deltas). ok=false means "unknown".
func distinct(a, b *Term) (diff bool, ok bool) {
	if a == b {
		return false, true
	}
	ba, da := baseDelta(a)
	bb, db := baseDelta(b)
	if ba == bb {
		return da != db, true
	}
	return false, false
}
func baseDelta(t *Term) (*Term, uint64) {
	if t.Op == "const" {
		return nil, t.C
	}
	if t.Op == "bvadd" && t.Args[1].Op == "const" {
		return t.Args[0], t.Args[1].C
	}
	return t, 0
}

// ---------------------------------------------------------------- printing

type Printer struct {
	defs  []string          // new definitions produced since last Flush
	names map[*Term]string  // persistent across queries (global declarations)
	decl  map[string]string // declared symbols
	ndecl []string          // new declarations since last Flush
	intMode bool
}

func NewPrinter() *Printer { return &Printer{names: map[*Term]string{}, decl: map[string]string{}} }

const arrSort = "(Array (_ BitVec 64) (_ BitVec 8))"

func sortOf(t *Term) string {
	if t.W == 0 {
		return "Bool"
	}
	return fmt.Sprintf("(_ BitVec %d)", t.W)
}
func (p *Printer) declare(name, sort string) {
	if _, ok := p.decl[name]; !ok {
		p.decl[name] = sort
		p.ndecl = append(p.ndecl, fmt.Sprintf("(declare-fun %s () %s)", name, sort))
	}
}
func (p *Printer) P(t *Term) string {
	if n, ok := p.names[t]; ok {
		return n
	}
	var s string
	switch t.Op {
	case "const":
		s = fmt.Sprintf("(_ bv%d %d)", t.C, t.W)
	case "true", "false":
		s = t.Op
	case "var":
		p.declare(t.Name, sortOf(t))
		s = t.Name
	case "select":
		p.declare(t.Name, arrSort)
		s = fmt.Sprintf("(select %s %s)", t.Name, p.P(t.Args[0]))
	case "zext":
		s = fmt.Sprintf("((_ zero_extend %d) %s)", t.P1, p.P(t.Args[0]))
	case "sext":
		s = fmt.Sprintf("((_ sign_extend %d) %s)", t.P1, p.P(t.Args[0]))
	case "extract":
		s = fmt.Sprintf("((_ extract %d %d) %s)", t.P1, t.P2, p.P(t.Args[0]))
	default:
		parts := make([]string, 0, 4)
		parts = append(parts, t.Op)
		for _, a := range t.Args {
			parts = append(parts, p.P(a))
		}
		s = "(" + strings.Join(parts, " ") + ")"
	}
	if len(t.Args) > 0 && len(s) > 48 {
		n := fmt.Sprintf("t!%d", t.id)
		p.defs = append(p.defs, fmt.Sprintf("(define-fun %s () %s %s)", n, sortOf(t), s))
		p.names[t] = n
		return n
	}
	p.names[t] = s
	return s
}

// Flush returns (and forgets) the declarations and definitions accumulated
// since the last call, in dependency order.
func (p *Printer) Flush() string {
	var sb strings.Builder
	for _, d := range p.ndecl {
		sb.WriteString(d)
		sb.WriteByte('\n')
	}
	for _, d := range p.defs {
		sb.WriteString(d)
		sb.WriteByte('\n')
	}
	p.ndecl, p.defs = nil, nil
	return sb.String()
}

// ------------------------------------------------------------ Int printing
// Integer (LIA with div/mod) rendering of a bit-vector term, used for the
// checksum obligations. Every BV node of width w is an Int in [0, 2^w).

type IntPrinter struct {
	defs  []string
	names map[*Term]string
	decl  map[string]string
	cons  []string // range constraints for variables / selects
	ub    map[*Term]*big.Int
}

func NewIntPrinter() *IntPrinter {
	return &IntPrinter{names: map[*Term]string{}, decl: map[string]string{}, ub: map[*Term]*big.Int{}}
}

func pow2(n int) *big.Int { return new(big.Int).Lsh(big.NewInt(1), uint(n)) }

func bigUB(t *Term, memo map[*Term]*big.Int) *big.Int {
	if v, ok := memo[t]; ok {
		return v
	}
	if t.W == 0 {
		return big.NewInt(1)
	}
	max := new(big.Int).Sub(pow2(t.W), big.NewInt(1))
	r := max
	switch t.Op {
	case "const":
		r = new(big.Int).SetUint64(t.C)
	case "select":
		r = big.NewInt(255)
	case "zext":
		r = bigUB(t.Args[0], memo)
	case "bvadd":
		s := new(big.Int).Add(bigUB(t.Args[0], memo), bigUB(t.Args[1], memo))
		if s.Cmp(max) <= 0 {
			r = s
		}
	case "bvmul":
		s := new(big.Int).Mul(bigUB(t.Args[0], memo), bigUB(t.Args[1], memo))
		if s.Cmp(max) <= 0 {
			r = s
		}
	case "bvor", "bvxor":
		a, b := bigUB(t.Args[0], memo), bigUB(t.Args[1], memo)
		m := a
		if b.Cmp(a) > 0 {
			m = b
		}
		r = new(big.Int).Sub(pow2(m.BitLen()), big.NewInt(1))
	case "bvshl":
		if t.Args[1].IsConst() {
			s := new(big.Int).Lsh(bigUB(t.Args[0], memo), uint(t.Args[1].C))
			if s.Cmp(max) <= 0 {
				r = s
			}
		}
	case "bvlshr":
		if t.Args[1].IsConst() {
			r = new(big.Int).Rsh(bigUB(t.Args[0], memo), uint(t.Args[1].C))
		}
	case "bvand":
		a, b := bigUB(t.Args[0], memo), bigUB(t.Args[1], memo)
		r = a
		if b.Cmp(a) < 0 {
			r = b
		}
	case "ite":
		a, b := bigUB(t.Args[1], memo), bigUB(t.Args[2], memo)
		r = a
		if b.Cmp(a) > 0 {
			r = b
		}
	case "extract":
		if t.P2 == 0 {
			a := bigUB(t.Args[0], memo)
			if a.Cmp(max) <= 0 {
				r = a
			}
		}
	}
	memo[t] = r
	return r
}

var errIntUnsupported = fmt.Errorf("int back end: unsupported operator")

func (p *IntPrinter) P(t *Term) (string, error) {
	if n, ok := p.names[t]; ok {
		return n, nil
	}
	arg := func(i int) (string, error) { return p.P(t.Args[i]) }
	var s string
	var err error
	bin := func(f string) (string, error) {
		a, e1 := arg(0)
		b, e2 := arg(1)
		if e1 != nil {
			return "", e1
		}
		if e2 != nil {
			return "", e2
		}
		return fmt.Sprintf(f, a, b), nil
	}
	wrap := func(expr string, needMod bool) string {
		if needMod {
			return fmt.Sprintf("(mod %s %s)", expr, pow2(t.W).String())
		}
		return expr
	}
	switch t.Op {
	case "const":
		s = new(big.Int).SetUint64(t.C).String()
	case "true", "false":
		s = t.Op
	case "var":
		if t.W == 0 {
			p.decl[t.Name] = "Bool"
		} else {
			if _, ok := p.decl[t.Name]; !ok {
				p.cons = append(p.cons, fmt.Sprintf("(and (<= 0 %s) (< %s %s))", t.Name, t.Name, pow2(t.W).String()))
			}
			p.decl[t.Name] = "Int"
		}
		s = t.Name
	case "select":
		if !t.Args[0].IsConst() {
			return "", errIntUnsupported
		}
		n := fmt.Sprintf("%s!%d", t.Name, t.Args[0].C)
		if _, ok := p.decl[n]; !ok {
			p.cons = append(p.cons, fmt.Sprintf("(and (<= 0 %s) (<= %s 255))", n, n))
		}
		p.decl[n] = "Int"
		s = n
	case "zext":
		s, err = arg(0)
	case "extract":
		var a string
		a, err = arg(0)
		if err == nil {
			e := a
			if t.P2 > 0 {
				e = fmt.Sprintf("(div %s %s)", a, pow2(t.P2).String())
			}
			ub := new(big.Int).Rsh(bigUB(t.Args[0], p.ub), uint(t.P2))
			s = wrap(e, ub.Cmp(pow2(t.W)) >= 0)
		}
	case "bvadd":
		var e string
		e, err = bin("(+ %s %s)")
		sum := new(big.Int).Add(bigUB(t.Args[0], p.ub), bigUB(t.Args[1], p.ub))
		s = wrap(e, sum.Cmp(pow2(t.W)) >= 0)
	case "bvsub":
		var e string
		e, err = bin("(- %s %s)")
		s = wrap(e, true)
	case "bvmul":
		if !t.Args[0].IsConst() && !t.Args[1].IsConst() {
			return "", errIntUnsupported
		}
		var e string
		e, err = bin("(* %s %s)")
		pr := new(big.Int).Mul(bigUB(t.Args[0], p.ub), bigUB(t.Args[1], p.ub))
		s = wrap(e, pr.Cmp(pow2(t.W)) >= 0)
	case "bvshl":
		if !t.Args[1].IsConst() {
			return "", errIntUnsupported
		}
		var a string
		a, err = arg(0)
		e := fmt.Sprintf("(* %s %s)", a, pow2(int(t.Args[1].C)).String())
		sh := new(big.Int).Lsh(bigUB(t.Args[0], p.ub), uint(t.Args[1].C))
		s = wrap(e, sh.Cmp(pow2(t.W)) >= 0)
	case "bvlshr":
		if !t.Args[1].IsConst() {
			return "", errIntUnsupported
		}
		var a string
		a, err = arg(0)
		s = fmt.Sprintf("(div %s %s)", a, pow2(int(t.Args[1].C)).String())
	case "bvand":
		// only masks of the form 2^k-1 (or 2^w-2^k) are supported
		x, m := t.Args[0], t.Args[1]
		if x.IsConst() {
			x, m = m, x
		}
		if !m.IsConst() {
			return "", errIntUnsupported
		}
		var a string
		a, err = p.P(x)
		if m.C&(m.C+1) == 0 { // 2^k - 1
			k := 0
			for (uint64(1)<<uint(k))-1 != m.C {
				k++
				if k == 64 {
					break
				}
			}
			if bigUB(x, p.ub).Cmp(new(big.Int).SetUint64(m.C)) <= 0 {
				s = a
			} else {
				s = fmt.Sprintf("(mod %s %s)", a, pow2(k).String())
			}
		} else {
			return "", errIntUnsupported
		}
	case "bvor":
		// a | b where the operands provably occupy disjoint bit ranges: (x<<k) | y with y < 2^k
		a, b := t.Args[0], t.Args[1]
		disj := func(hi, lo *Term) bool {
			if hi.Op == "bvshl" && hi.Args[1].IsConst() {
				return bigUB(lo, p.ub).Cmp(pow2(int(hi.Args[1].C))) < 0
			}
			return false
		}
		if disj(a, b) || disj(b, a) {
			s, err = bin("(+ %s %s)")
		} else {
			return "", errIntUnsupported
		}
	case "bvnot":
		var a string
		a, err = arg(0)
		s = fmt.Sprintf("(- %s %s)", new(big.Int).Sub(pow2(t.W), big.NewInt(1)).String(), a)
	case "ite":
		c, e0 := arg(0)
		a, e1 := arg(1)
		b, e2 := arg(2)
		for _, e := range []error{e0, e1, e2} {
			if e != nil {
				return "", e
			}
		}
		s = fmt.Sprintf("(ite %s %s %s)", c, a, b)
	case "=":
		s, err = bin("(= %s %s)")
	case "bvult":
		s, err = bin("(< %s %s)")
	case "bvule":
		s, err = bin("(<= %s %s)")
	case "not":
		var a string
		a, err = arg(0)
		s = fmt.Sprintf("(not %s)", a)
	case "and":
		s, err = bin("(and %s %s)")
	case "or":
		s, err = bin("(or %s %s)")
	default:
		return "", errIntUnsupported
	}
	if err != nil {
		return "", err
	}
	if len(t.Args) > 0 && len(s) > 48 {
		n := fmt.Sprintf("t!%d", t.id)
		srt := "Int"
		if t.W == 0 {
			srt = "Bool"
		}
		p.defs = append(p.defs, fmt.Sprintf("(define-fun %s () %s %s)", n, srt, s))
		p.names[t] = n
		return n, nil
	}
	p.names[t] = s
	return s, nil
}

func (p *IntPrinter) Script(asserts []string) string {
	var sb strings.Builder
	names := make([]string, 0, len(p.decl))
	for n := range p.decl {
		names = append(names, n)
	}
	sort.Strings(names)
	for _, n := range names {
		fmt.Fprintf(&sb, "(declare-fun %s () %s)\n", n, p.decl[n])
	}
	for _, c := range p.cons {
		fmt.Fprintf(&sb, "(assert %s)\n", c)
	}
	for _, d := range p.defs {
		sb.WriteString(d + "\n")
	}
	for _, a := range asserts {
		fmt.Fprintf(&sb, "(assert %s)\n", a)
	}
	sb.WriteString("(check-sat)\n")
	return sb.String()
}

// -------------------------------------------------------------- evaluation

// Model: values of scalar variables and of base array cells.
type Model struct {
	Vars map[string]uint64
	Arr  map[string]map[uint64]byte
}

func (m *Model) Eval(t *Term, memo map[*Term]uint64) uint64 {
	if v, ok := memo[t]; ok {
		return v
	}
	var r uint64
	a := func(i int) uint64 { return m.Eval(t.Args[i], memo) }
	b2u := func(b bool) uint64 {
		if b {
			return 1
		}
		return 0
	}
	switch t.Op {
	case "const", "true", "false":
		r = t.C
	case "var":
		r = m.Vars[t.Name] & mask1(t.W)
	case "select":
		r = uint64(m.Arr[t.Name][a(0)])
	case "zext":
		r = a(0)
	case "sext":
		r = uint64(sext(a(0), t.Args[0].W)) & mask(t.W)
	case "extract":
		r = (a(0) >> uint(t.P2)) & mask(t.W)
	case "not":
		r = 1 - a(0)
	case "and":
		r = a(0) & a(1)
	case "or":
		r = a(0) | a(1)
	case "ite":
		if a(0) != 0 {
			r = a(1)
		} else {
			r = a(2)
		}
	case "bvnot":
		r = ^a(0) & mask(t.W)
	case "=":
		r = b2u(a(0) == a(1))
	case "bvult":
		r = b2u(a(0) < a(1))
	case "bvule":
		r = b2u(a(0) <= a(1))
	case "bvslt":
		r = b2u(sext(a(0), t.Args[0].W) < sext(a(1), t.Args[0].W))
	case "bvsle":
		r = b2u(sext(a(0), t.Args[0].W) <= sext(a(1), t.Args[0].W))
	default:
		v, ok := foldBin(t.Op, a(0), a(1), t.W)
		if !ok {
			v = 0 // division by zero in a model: SMT-LIB total semantics not needed for cache use
		}
		r = v & mask(t.W)
	}
	memo[t] = r
	return r
}
func mask1(w int) uint64 {
	if w == 0 {
		return 1
	}
	return mask(w)
}

// termSize counts DAG nodes.
func termSize(t *Term, seen map[*Term]bool) int {
	if seen[t] {
		return 0
	}
	seen[t] = true
	n := 1
	for _, a := range t.Args {
		n += termSize(a, seen)
	}
	return n
}

// freeSyms collects variable names and (array, constant index) cells a term depends on.
func freeSyms(t *Term, vars map[*Term]bool, sels map[*Term]bool, seen map[*Term]bool) {
	if seen[t] {
		return
	}
	seen[t] = true
	switch t.Op {
	case "var":
		vars[t] = true
	case "select":
		sels[t] = true
	}
	for _, a := range t.Args {
		freeSyms(a, vars, sels, seen)
	}
}
