package main

import (
	"encoding/json"
	"runtime/pprof"
	"flag"
	"fmt"
	"os"
	"path/filepath"
	"sort"
	"strconv"
	"strings"
	"sync"
	"time"
)

var verifDir = "/verif"

// Job: one harness entry point run under one configuration.
type Job struct {
	Pkg     string   // harness dir ("root", "fastlog", "handlers/arp_spoofer", ...)
	Func    string   // harness function
	Args    []int64  // concrete int arguments
	SplitN  int      // verifSplit arity (0: none); the job is expanded into SplitN jobs
	SplitK  int
	Cfg     Config
	Threads bool
	Reach   []string // reachability markers that must be hit (vacuity guard)
	Twin    bool     // reachability twin: the final verifAssert(false,"twin") must be violated
}

func (j Job) Name() string {
	n := j.Func
	if len(j.Args) > 0 {
		var a []string
		for _, x := range j.Args {
			a = append(a, strconv.FormatInt(x, 10))
		}
		n += "(" + strings.Join(a, ",") + ")"
	}
	if j.SplitN > 0 {
		n += fmt.Sprintf("#%d/%d", j.SplitK, j.SplitN)
	}
	return n
}

type JobResult struct {
	Job       Job
	Paths     int
	Dead      int
	Oblig     int
	Disch     int
	Decisions int
	Findings  []Finding
	Inconc    []string
	Wall      float64
	Stats     SolverStats
	Funcs     []string
	Stubs     map[string]int
	Reach     map[string]int
	Samples   []map[string]interface{}
	Err       string
}

func runJob(ld *Loaded, j Job) (res JobResult) {
	t0 := time.Now()
	res.Job = j
	defer func() {
		if r := recover(); r != nil {
			res.Err = fmt.Sprint(r)
			if os.Getenv("GSE_DEBUG") != "" {
				panic(r)
			}
		}
		res.Wall = time.Since(t0).Seconds()
	}()
	e := NewEngine(ld, j.Cfg)
	defer e.Close()
	if err := e.RunInit(); err != nil {
		res.Err = err.Error()
		return
	}
	pkg := ld.pkgs[pkgPath(j.Pkg)]
	if pkg == nil {
		res.Err = "no package " + j.Pkg
		return
	}
	fn := pkg.Func(j.Func)
	if fn == nil {
		res.Err = "no harness function " + j.Func + " in " + j.Pkg
		return
	}
	var args []Val
	for _, a := range j.Args {
		args = append(args, IntV{e.tb.BV(uint64(a), 64)})
	}
	e.splitN, e.splitK = j.SplitN, j.SplitK
	e.threadMode = j.Threads
	e.Run(j.Name(), fn, args, nil)
	res.Paths, res.Dead, res.Oblig, res.Disch, res.Decisions = e.paths, e.deadPaths, e.oblig, e.disch, e.decisions
	res.Findings, res.Inconc = e.findings, e.inconc
	for i := range res.Findings {
		res.Findings[i].Job = j
	}
	res.Stats = *e.stats
	for f := range e.funcs {
		res.Funcs = append(res.Funcs, f)
	}
	sort.Strings(res.Funcs)
	res.Stubs, res.Reach, res.Samples = e.stubsHit, e.reach, e.samples
	return
}

// runJobs runs jobs on a worker pool.
func runJobs(ld *Loaded, jobs []Job, workers int) []JobResult {
	var expanded []Job
	for _, j := range jobs {
		if j.SplitN > 0 {
			for k := 0; k < j.SplitN; k++ {
				jj := j
				jj.SplitK = k
				expanded = append(expanded, jj)
			}
		} else {
			expanded = append(expanded, j)
		}
	}
	results := make([]JobResult, len(expanded))
	ch := make(chan int)
	var wg sync.WaitGroup
	for w := 0; w < workers; w++ {
		wg.Add(1)
		go func() {
			defer wg.Done()
			for i := range ch {
				results[i] = runJob(ld, expanded[i])
				if os.Getenv("GSE_VERBOSE") != "" {
					r := results[i]
					fmt.Fprintf(os.Stderr, "  job %-40s paths=%d dead=%d oblig=%d/%d findings=%d inconc=%d queries=%d wall=%.1fs %s\n", r.Job.Name(), r.Paths, r.Dead, r.Disch, r.Oblig, len(r.Findings), len(r.Inconc), r.Stats.Queries, r.Wall, r.Err)
				}
			}
		}()
	}
	for i := range expanded {
		ch <- i
	}
	close(ch)
	wg.Wait()
	return results
}

func main() {
	if len(os.Args) < 2 {
		fmt.Fprintln(os.Stderr, "usage: gse check <ID> [--tier quick|thorough] | run <pkgdir> <Func> [ints...] | replay <path> | selftest")
		os.Exit(2)
	}
	if v := os.Getenv("VERIF_DIR"); v != "" {
		verifDir = v
	}
	if pf := os.Getenv("GSE_PROFILE"); pf != "" {
		f, _ := os.Create(pf)
		pprof.StartCPUProfile(f)
		defer pprof.StopCPUProfile()
	}
	switch os.Args[1] {
	case "run":
		cmdRun(os.Args[2:])
	case "check":
		os.Exit(cmdCheck(os.Args[2:]))
	case "replay":
		os.Exit(cmdReplay(os.Args[2:]))
	case "selftest":
		os.Exit(cmdSelftest(os.Args[2:]))
	case "jobs": // jobs <ID> [tier]: print the job names of a property
		tier := "quick"
		if len(os.Args) > 3 {
			tier = os.Args[3]
		}
		if p := props[os.Args[2]]; p != nil {
			for _, j := range p.Jobs(tier) {
				fmt.Println(j.Name())
			}
		}
	case "list":
		for _, id := range propIDs() {
			fmt.Println(id)
		}
	default:
		fmt.Fprintln(os.Stderr, "unknown command")
		os.Exit(2)
	}
}

func cmdRun(args []string) {
	fs := flag.NewFlagSet("run", flag.ExitOnError)
	split := fs.Int("split", 0, "split arity")
	only := fs.Int("k", -1, "only this split value")
	maxloop := fs.Int("maxloop", 64, "unwinding bound")
	workers := fs.Int("j", 16, "workers")
	perm := fs.Bool("perm", false, "permute map iteration")
	threads := fs.Bool("threads", false, "thread mode")
	alloc := fs.Bool("alloc", false, "track allocations")
	stubs := fs.String("stubs", "", "comma separated stub switches")
	maxwall := fs.Int("wall", 0, "wall budget per job (s)")
	preempt := fs.Int("preempt", 0, "thread mode: preemption bound (0: default 2, -1: none)")
	ticks := fs.Int("ticks", 0, "thread mode: timer firings per path")
	fs.Parse(args)
	rest := fs.Args()
	if len(rest) < 2 {
		fmt.Fprintln(os.Stderr, "run <pkgdir> <Func> [ints]")
		os.Exit(2)
	}
	ld, err := Load(filepath.Join(verifDir, "harness"))
	if err != nil {
		fmt.Fprintln(os.Stderr, err)
		os.Exit(2)
	}
	j := Job{Pkg: rest[0], Func: rest[1], SplitN: *split, Threads: *threads}
	j.Cfg.MaxLoop = *maxloop
	j.Cfg.MaxWall = *maxwall
	j.Cfg.Preempt = *preempt
	j.Cfg.Ticks = *ticks
	j.Cfg.PermuteMaps = *perm
	j.Cfg.TrackAlloc = *alloc
	j.Cfg.Stubs = map[string]bool{}
	for _, s := range strings.Split(*stubs, ",") {
		if s != "" {
			j.Cfg.Stubs[s] = true
		}
	}
	for _, a := range rest[2:] {
		v, _ := strconv.ParseInt(a, 10, 64)
		j.Args = append(j.Args, v)
	}
	jobs := []Job{j}
	if strings.HasSuffix(j.Func, "*") {
		jobs = nil
		pkg := ld.pkgs[pkgPath(j.Pkg)]
		var names []string
		for name := range pkg.Members {
			if strings.HasPrefix(name, strings.TrimSuffix(j.Func, "*")) && pkg.Func(name) != nil {
				names = append(names, name)
			}
		}
		sort.Strings(names)
		for _, n := range names {
			jj := j
			jj.Func = n
			jobs = append(jobs, jj)
		}
	}
	if *only >= 0 {
		j.SplitK = *only
		res := runJob(ld, j)
		printResult(res)
		dumpForkStats()
		return
	}
	for _, r := range runJobs(ld, jobs, *workers) {
		printResult(r)
	}
}

func printResult(r JobResult) {
	fmt.Printf("%s: paths=%d dead=%d obligations=%d discharged=%d decisions=%d queries=%d (sat %d unsat %d unknown %d) solver=%.1fs wall=%.1fs funcs=%d\n",
		r.Job.Name(), r.Paths, r.Dead, r.Oblig, r.Disch, r.Decisions, r.Stats.Queries, r.Stats.Sat, r.Stats.Unsat, r.Stats.Unknown, r.Stats.Time.Seconds(), r.Wall, len(r.Funcs))
	if r.Err != "" {
		fmt.Printf("   ERROR %s\n", r.Err)
	}
	for _, f := range r.Findings {
		fmt.Printf("   FINDING %s | %s | %s | %s\n", f.Kind, f.Func, f.Expr, f.Pos)
		if f.Model != nil && os.Getenv("GSE_MODEL") != "" {
			b, _ := json.Marshal(sampleFromModel(f))
			fmt.Printf("      model %s\n", b)
		}
	}
	seen := map[string]int{}
	for _, s := range r.Inconc {
		seen[s]++
	}
	for s, n := range seen {
		fmt.Printf("   INCONCLUSIVE x%d %s\n", n, s)
	}
	if len(r.Reach) > 0 {
		fmt.Printf("   reach %v\n", r.Reach)
	}
}

func sampleFromModel(f Finding) map[string]interface{} {
	s := map[string]interface{}{}
	if f.Model == nil {
		return s
	}
	for _, in := range f.Inputs {
		switch in.Kind {
		case "int", "bool":
			s[in.Name] = f.Model.Vars[in.Name]
		case "bytes":
			n := in.N
			if n > 96 {
				n = 96
			}
			b := make([]byte, n)
			for i := 0; i < n; i++ {
				b[i] = f.Model.Arr[in.Name][uint64(i)]
			}
			s[in.Name] = fmt.Sprintf("%x", b)
		}
	}
	return s
}
