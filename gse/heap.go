package main

import (
	"fmt"
	"go/types"
)

// ---------------------------------------------------------------- state

type Input struct {
	Kind string // "int", "bytes"
	Name string // solver symbol
	W    int    // int width
	N    int    // bytes length
	Seq  int    // harness call sequence number (tape position)
	Val  uint64 // Kind "const": the concrete value chosen on this path
}

type Event struct {
	Kind string
	Vals []Val
}

type State struct {
	root    map[int]*Object // frozen globals (shared)
	base    map[int]*Object // older local objects (immutable map, shared between forks and snapshots)
	heap    map[int]*Object // recent local objects / versions (small delta, private)
	threads []*Thread
	cur     int
	pc      []*Term
	pcSet   map[*Term]bool
	inputs  []Input
	events  []Event
	pending []pendingGo // sequential mode: deferred `go` calls
	steps   int
	depthID int // number of forks on this path
	reached map[string]bool
	clockN  int
	dead    bool
	notes   []string
	locks   map[lockID]int // sequential-mode lock state (immutable map, replaced on write)
	clockLast   *Term
	clockLo     *Term // harness-imposed window for time.Now (verifClockRange)
	clockHi     *Term
	clockFrozen bool
	choiceSeq   int
	hseq        int // number of harness tape entries consumed
	conc        map[*Term]uint64 // terms already case-split to a concrete value on this path (immutable map)
	tm          *threadState     // thread mode bookkeeping
}

type pendingGo struct {
	fn   FuncV
	args []Val
}

func (st *State) clone() *State {
	n := &State{root: st.root, cur: st.cur, steps: st.steps, depthID: st.depthID + 1, clockN: st.clockN,
		locks: st.locks, clockLast: st.clockLast, clockLo: st.clockLo, clockHi: st.clockHi, clockFrozen: st.clockFrozen, choiceSeq: st.choiceSeq, hseq: st.hseq, conc: st.conc}
	n.base = st.base
	n.heap = make(map[int]*Object, len(st.heap)+8)
	for k, v := range st.heap {
		n.heap[k] = v
	}
	n.pc = st.pc[:len(st.pc):len(st.pc)]
	n.pcSet = make(map[*Term]bool, len(st.pcSet)+8)
	for k := range st.pcSet {
		n.pcSet[k] = true
	}
	n.inputs = st.inputs[:len(st.inputs):len(st.inputs)]
	n.events = st.events[:len(st.events):len(st.events)]
	n.pending = st.pending[:len(st.pending):len(st.pending)]
	n.notes = st.notes[:len(st.notes):len(st.notes)]
	if st.reached != nil {
		n.reached = map[string]bool{}
		for k := range st.reached {
			n.reached[k] = true
		}
	}
	n.threads = make([]*Thread, len(st.threads))
	for i, t := range st.threads {
		n.threads[i] = t.clone()
	}
	if st.tm != nil {
		n.tm = st.tm.clone()
	}
	return n
}

func (st *State) addPC(c *Term) {
	if c.IsTrue() || st.pcSet[c] {
		return
	}
	st.pc = append(st.pc, c)
	st.pcSet[c] = true
}

func (st *State) obj(id int) *Object {
	o := st.heap[id]
	if o == nil {
		o = st.base[id]
	}
	if o == nil {
		o = st.root[id]
		if o == nil {
			panic(engineErr("dangling object %d", id))
		}
	}
	return o
}

// mut returns a private copy of the object that may be modified.
func (st *State) mut(id int) *Object {
	o := st.obj(id).clone()
	st.heap[id] = o
	st.compact()
	return o
}

// local returns the state's own version of an object (nil if only the frozen root version exists).
func (st *State) local(id int) *Object {
	if o := st.heap[id]; o != nil {
		return o
	}
	return st.base[id]
}

// compact folds the delta into a fresh base map once it has grown (keeps forks and loop snapshots cheap).
func (st *State) compact() {
	if len(st.heap) < 96 {
		return
	}
	nb := make(map[int]*Object, len(st.base)+len(st.heap))
	for k, v := range st.base {
		nb[k] = v
	}
	for k, v := range st.heap {
		nb[k] = v
	}
	st.base = nb
	st.heap = make(map[int]*Object, 32)
}

// eachLocal visits every local object (delta over base).
func (st *State) eachLocal(f func(id int, o *Object)) {
	for k, v := range st.heap {
		f(k, v)
	}
	for k, v := range st.base {
		if _, ok := st.heap[k]; !ok {
			f(k, v)
		}
	}
}

func (st *State) newObj(e *Engine, kind int, site string) *Object {
	e.nextObj++
	o := &Object{id: e.nextObj, kind: kind, site: site, thr: st.cur}
	st.heap[o.id] = o
	st.compact()
	return o
}

func (st *State) newBytes(e *Engine, arr *Arr, n *Term, site string) *Object {
	o := st.newObj(e, okBytes, site)
	o.arr, o.n = arr, n
	return o
}

func (st *State) newVal(e *Engine, v Val, site string) *Object {
	o := st.newObj(e, okVal, site)
	o.v = v
	return o
}

// ---------------------------------------------------------------- arrays

// sameBaseDiff: if a and b share the same symbolic base returns b-a as a
// signed delta (index arithmetic is assumed not to wrap around 2^64).
func sameBaseDiff(a, b *Term) (int64, bool) {
	ba, da := baseDelta(a)
	bb, db := baseDelta(b)
	if ba == bb {
		return int64(db - da), true
	}
	return 0, false
}

func (e *Engine) arrRead(a *Arr, idx *Term) *Term {
	tb := e.tb
	switch a.kind {
	case aBase:
		return tb.Select(a.name, idx)
	case aZero:
		return tb.BV(0, 8)
	case aStore:
		if d, ok := sameBaseDiff(a.idx, idx); ok {
			if d == 0 {
				return a.val
			}
			return e.arrRead(a.parent, idx)
		}
		return tb.Ite(tb.Cmp("=", a.idx, idx), a.val, e.arrRead(a.parent, idx))
	case aCopy:
		if d, ok := sameBaseDiff(a.do, idx); ok {
			if d < 0 {
				return e.arrRead(a.parent, idx)
			}
			in := tb.Cmp("bvult", tb.BV(uint64(d), 64), a.n)
			if in.IsFalse() {
				return e.arrRead(a.parent, idx)
			}
			sv := e.arrRead(a.src, tb.Bin("bvadd", a.so, tb.BV(uint64(d), 64)))
			if in.IsTrue() {
				return sv
			}
			return tb.Ite(in, sv, e.arrRead(a.parent, idx))
		}
		off := tb.Bin("bvsub", idx, a.do)
		in := tb.And(tb.Cmp("bvule", a.do, idx), tb.Cmp("bvult", off, a.n))
		if in.IsFalse() {
			return e.arrRead(a.parent, idx)
		}
		sv := e.arrRead(a.src, tb.Bin("bvadd", a.so, off))
		return tb.Ite(in, sv, e.arrRead(a.parent, idx))
	}
	panic("arr kind")
}

func (e *Engine) arrStore(a *Arr, idx, val *Term) *Arr {
	// overwrite of the top store at the same index
	if a.kind == aStore {
		if d, ok := sameBaseDiff(a.idx, idx); ok && d == 0 {
			return &Arr{kind: aStore, parent: a.parent, idx: idx, val: val, depth: a.depth}
		}
	}
	return &Arr{kind: aStore, parent: a, idx: idx, val: val, depth: a.depth + 1}
}

// arrCopy: dst[do+i] = src[so+i] for i < n (src is the array version at the time of the copy).
func (e *Engine) arrCopy(dst *Arr, do *Term, src *Arr, so, n *Term) *Arr {
	tb := e.tb
	if n.IsConst() && n.C <= 96 {
		vals := make([]*Term, n.C)
		for i := uint64(0); i < n.C; i++ {
			vals[i] = e.arrRead(src, tb.Bin("bvadd", so, tb.BV(i, 64)))
		}
		for i := uint64(0); i < n.C; i++ {
			dst = e.arrStore(dst, tb.Bin("bvadd", do, tb.BV(i, 64)), vals[i])
		}
		return dst
	}
	return &Arr{kind: aCopy, parent: dst, src: src, so: so, do: do, n: n, depth: dst.depth + 1}
}

// ---------------------------------------------------------------- load/store

func (e *Engine) loadPtr(st *State, p PtrV, t types.Type) Val {
	if p.Obj == 0 {
		panic(engineErr("load through nil pointer (unchecked)"))
	}
	o := st.obj(p.Obj)
	switch o.kind {
	case okVal:
		e.access(st, p, false)
		v := getPath(o.v, p.Path)
		if ev, ok := v.(EmbV); ok {
			// by-value load of an embedded byte array
			n, _ := isByteArray(t)
			return e.loadBytes(st, PtrV{Obj: ev.Obj, Idx: e.tb.BV(0, 64)}, n)
		}
		return e.cloneEmb(st, v)
	case okBytes:
		e.access(st, p, false)
		if n, ok := isByteArray(t); ok {
			return e.loadBytes(st, p, n)
		}
		w, _, ok := intWidth(t)
		if !ok || w != 8 {
			panic(engineErr("load of %s from byte object", t))
		}
		return IntV{e.arrRead(o.arr, p.Idx)}
	}
	panic(engineErr("load from object kind %d", o.kind))
}

func (e *Engine) loadBytes(st *State, p PtrV, n int64) Val {
	o := st.obj(p.Obj)
	av := ArrV{E: make([]Val, n)}
	for i := int64(0); i < n; i++ {
		av.E[i] = IntV{e.arrRead(o.arr, e.tb.Bin("bvadd", p.Idx, e.tb.BV(uint64(i), 64)))}
	}
	return av
}

func (e *Engine) storePtr(st *State, p PtrV, v Val) {
	if p.Obj == 0 {
		panic(engineErr("store through nil pointer (unchecked)"))
	}
	o := st.obj(p.Obj)
	switch o.kind {
	case okVal:
		if np, ok := v.(PtrV); ok && e.threadMode {
			// `return x` with a named, captured result x stores x into itself in go/ssa (the compiler elides it)
			if op, ok := getPath(o.v, p.Path).(PtrV); ok && op.Obj == np.Obj && op.Idx == np.Idx && fmt.Sprint(op.Path) == fmt.Sprint(np.Path) {
				e.access(st, p, false)
				return
			}
		}
		e.access(st, p, true)
		if ev, ok := getPath(o.v, p.Path).(EmbV); ok {
			e.storePtr(st, PtrV{Obj: ev.Obj, Idx: e.tb.BV(0, 64)}, v)
			return
		}
		v = e.copyEmb(st, v, getPath(o.v, p.Path))
		m := st.mut(p.Obj)
		m.v = setPath(m.v, p.Path, v)
	case okBytes:
		e.access(st, p, true)
		m := st.mut(p.Obj)
		switch x := v.(type) {
		case IntV:
			if x.T.W != 8 {
				panic(engineErr("store of %d-bit value into byte object", x.T.W))
			}
			m.arr = e.arrStore(m.arr, p.Idx, x.T)
		case ArrV:
			for i, el := range x.E {
				m.arr = e.arrStore(m.arr, e.tb.Bin("bvadd", p.Idx, e.tb.BV(uint64(i), 64)), el.(IntV).T)
			}
		default:
			panic(engineErr("store of %T into byte object", v))
		}
	default:
		panic(engineErr("store into object kind %d", o.kind))
	}
}

// copyEmb: storing a value that contains embedded byte arrays copies the
// array contents into the destination's own embedded objects (value semantics).
func (e *Engine) copyEmb(st *State, v Val, old Val) Val {
	switch x := v.(type) {
	case EmbV:
		if ov, ok := old.(EmbV); ok && ov.Obj != x.Obj {
			d := st.mut(ov.Obj)
			d.arr = st.obj(x.Obj).arr
			return ov
		}
		return x
	case StructV:
		os, ok := old.(StructV)
		if !ok || len(os.F) != len(x.F) {
			return v
		}
		var nf []Val
		for i, f := range x.F {
			switch f.(type) {
			case EmbV, StructV, ArrV:
				nv := e.copyEmb(st, f, os.F[i])
				if !sameVal(nv, f) {
					if nf == nil {
						nf = append([]Val{}, x.F...)
					}
					nf[i] = nv
				}
			}
		}
		if nf != nil {
			return StructV{nf}
		}
		return v
	case ArrV:
		oa, ok := old.(ArrV)
		if !ok || len(oa.E) != len(x.E) || len(x.E) == 0 {
			return v
		}
		switch x.E[0].(type) {
		case EmbV, StructV, ArrV:
		default:
			return v
		}
		var nf []Val
		for i, f := range x.E {
			nv := e.copyEmb(st, f, oa.E[i])
			if !sameVal(nv, f) {
				if nf == nil {
					nf = append([]Val{}, x.E...)
				}
				nf[i] = nv
			}
		}
		if nf != nil {
			return ArrV{nf}
		}
		return v
	}
	return v
}

func sameVal(a, b Val) bool {
	ea, ok1 := a.(EmbV)
	eb, ok2 := b.(EmbV)
	if ok1 && ok2 {
		return ea.Obj == eb.Obj
	}
	if ok1 != ok2 {
		return false
	}
	// structs/arrays: copyEmb returns the identical value when nothing changed
	switch x := a.(type) {
	case StructV:
		y, ok := b.(StructV)
		return ok && len(x.F) == len(y.F) && (len(x.F) == 0 || &x.F[0] == &y.F[0])
	case ArrV:
		y, ok := b.(ArrV)
		return ok && len(x.E) == len(y.E) && (len(x.E) == 0 || &x.E[0] == &y.E[0])
	}
	return true
}

// cloneEmb: a by-value load snapshots embedded byte arrays (fresh objects sharing the persistent contents).
func (e *Engine) cloneEmb(st *State, v Val) Val {
	switch x := v.(type) {
	case EmbV:
		src := st.obj(x.Obj)
		o := st.newBytes(e, src.arr, src.n, "value copy")
		return EmbV{o.id}
	case StructV:
		var nf []Val
		for i, f := range x.F {
			switch f.(type) {
			case EmbV, StructV, ArrV:
				nv := e.cloneEmb(st, f)
				if !sameVal(nv, f) {
					if nf == nil {
						nf = append([]Val{}, x.F...)
					}
					nf[i] = nv
				}
			}
		}
		if nf != nil {
			return StructV{nf}
		}
	case ArrV:
		if len(x.E) == 0 {
			return v
		}
		switch x.E[0].(type) {
		case EmbV, StructV, ArrV:
		default:
			return v
		}
		var nf []Val
		for i, f := range x.E {
			nv := e.cloneEmb(st, f)
			if !sameVal(nv, f) {
				if nf == nil {
					nf = append([]Val{}, x.E...)
				}
				nf[i] = nv
			}
		}
		if nf != nil {
			return ArrV{nf}
		}
	}
	return v
}

// access hook: lockset logging in thread mode.
func (e *Engine) access(st *State, p PtrV, write bool) {
	if e.threadMode {
		e.logAccess(st, p, write)
	}
}

// ---------------------------------------------------------------- slices

// elemPtr returns the pointer to element i of a slice.
func (e *Engine) elemPtr(st *State, s SliceV, i *Term) PtrV {
	o := st.obj(s.Obj)
	if o.kind == okBytes {
		return PtrV{Obj: s.Obj, Idx: e.tb.Bin("bvadd", s.Off, i)}
	}
	if !s.Off.IsConst() || !i.IsConst() {
		panic(engineErr("symbolic index into element slice"))
	}
	return PtrV{Obj: s.Obj, Path: copyPath(s.Base, int(s.Off.C+i.C))}
}

func (e *Engine) sliceIsBytes(st *State, s SliceV) bool {
	return s.Obj != 0 && st.obj(s.Obj).kind == okBytes
}

// readByte reads byte i of a byte slice (no bounds obligation).
func (e *Engine) readByte(st *State, s SliceV, i *Term) *Term {
	o := st.obj(s.Obj)
	return e.arrRead(o.arr, e.tb.Bin("bvadd", s.Off, i))
}

func (e *Engine) describe(v Val) string {
	switch x := v.(type) {
	case IntV:
		if x.T.IsConst() {
			return fmt.Sprintf("%d", x.T.C)
		}
		return "sym"
	}
	return fmt.Sprintf("%T", v)
}
