package main

import (
	"fmt"
	"go/types"
	"strings"

	"golang.org/x/tools/go/ssa"
)

const opaqueStr = "\x00<opaque>"

type intrinsicFn func(e *Engine, st *State, th *Thread, fn *ssa.Function, args []Val) Val

var intrinsicTab map[string]intrinsicFn

func init() {
	intrinsicTab = map[string]intrinsicFn{
		// ---- sync (sequential semantics; thread mode intercepts earlier)
		"(*sync.Mutex).Lock":       lockOp(2, true),
		"(*sync.Mutex).Unlock":     lockOp(2, false),
		"(*sync.RWMutex).Lock":     lockOp(2, true),
		"(*sync.RWMutex).Unlock":   lockOp(2, false),
		"(*sync.RWMutex).RLock":    lockOp(1, true),
		"(*sync.RWMutex).RUnlock":  lockOp(1, false),
		"(*sync.WaitGroup).Add":    nop,
		"(*sync.WaitGroup).Done":   nop,
		"(*sync.WaitGroup).Wait":   nop,
		"(*sync.Pool).Put":         nop,
		"(*sync.Pool).Get":         poolGet,
		// reflect: only the "is this interface a nil pointer" idiom (fastlog.Line.Struct / Stringer)
		"reflect.ValueOf": func(e *Engine, st *State, th *Thread, fn *ssa.Function, args []Val) Val {
			return StructV{F: []Val{args[0], nil, nil}}
		},
		"(reflect.Value).Kind": func(e *Engine, st *State, th *Thread, fn *ssa.Function, args []Val) Val {
			iv, _ := args[0].(StructV).F[0].(IfaceV)
			return IntV{e.tb.BV(uint64(reflectKind(iv.T)), 64)}
		},
		"(reflect.Value).IsNil": func(e *Engine, st *State, th *Thread, fn *ssa.Function, args []Val) Val {
			iv, _ := args[0].(StructV).F[0].(IfaceV)
			switch x := iv.V.(type) {
			case PtrV:
				return BoolV{e.tb.Bool(x.Obj == 0 && x.Fn == "")}
			case SliceV:
				return BoolV{e.tb.Bool(x.Obj == 0)}
			case MapV:
				return BoolV{e.tb.Bool(x.Obj == 0)}
			}
			panic(engineErr("reflect.Value.IsNil on %T", iv.V))
		},
		// the file-system models never return a wrapped os.ErrNotExist (package os is not initialised in the engine)
		"os.IsNotExist": func(e *Engine, st *State, th *Thread, fn *ssa.Function, args []Val) Val { return BoolV{e.tb.ff} },
		"sync/atomic.StoreUint32":  atomicStore,
		"sync/atomic.StoreInt32":   atomicStore,
		"sync/atomic.StoreUint64":  atomicStore,
		"sync/atomic.StoreInt64":   atomicStore,
		"sync/atomic.LoadUint32":   atomicLoad,
		"sync/atomic.LoadInt32":    atomicLoad,
		"sync/atomic.LoadUint64":   atomicLoad,
		"sync/atomic.LoadInt64":    atomicLoad,
		"sync/atomic.AddUint32":    atomicAdd,
		"sync/atomic.AddInt32":     atomicAdd,
		"sync/atomic.AddUint64":    atomicAdd,
		"sync/atomic.AddInt64":     atomicAdd,
		"sync/atomic.CompareAndSwapInt32":  atomicCAS,
		"sync/atomic.CompareAndSwapUint32": atomicCAS,
		// ---- time (abstract clock: Time{wall:0, ext:nanoseconds, loc:nil})
		"time.Now":             timeNow,
		"time.Since":           timeSince,
		"time.Until":           timeUntil,
		"(time.Time).Add":      timeAdd,
		"(time.Time).Sub":      timeSub,
		"(time.Time).Before":   timeCmp("bvslt", false),
		"(time.Time).After":    timeCmp("bvslt", true),
		"(time.Time).Equal":    timeCmp("=", false),
		"(time.Time).Compare":  nil,
		"(time.Time).IsZero":   timeIsZero,
		"(time.Time).Unix":     nil,
		"(time.Time).UnixNano": timeUnixNano,
		"(time.Time).String":   opaqueString,
		"(time.Time).Format":   opaqueString,
		"(time.Time).Truncate": nil,
		"(time.Time).Round":    nil,
		"(time.Duration).String": opaqueString,
		"time.Sleep":           nop,
		"time.After":           timeAfter,
		"time.Tick":            timeAfter,
		"time.NewTicker":       timeNewTicker,
		"time.NewTimer":        timeNewTicker,
		"(*time.Ticker).Stop":  nop,
		"(*time.Timer).Stop":   retBool(true),
		"(*time.Ticker).Reset": nop,
		// ---- fmt / log (formatting is not the subject: empty bodies)
		"fmt.Printf":   retIntErr,
		"fmt.Println":  retIntErr,
		"fmt.Print":    retIntErr,
		"fmt.Fprintf":  retIntErr,
		"fmt.Fprintln": retIntErr,
		"fmt.Fprint":   retIntErr,
		"fmt.Sprintf":  opaqueString,
		"fmt.Sprint":   opaqueString,
		"fmt.Sprintln": opaqueString,
		"fmt.Errorf":   fmtErrorf,
		"log.Printf":   nop,
		"log.Println":  nop,
		"log.Print":    nop,
		"log.Fatal":    nop,
		"log.Fatalf":   nop,
		"(*log.Logger).Printf":  nop,
		"(*log.Logger).Println": nop,
		// ---- errors
		"errors.Is": errorsIs,
		// ---- bytes / strings kernels that are assembly in the runtime
		"bytes.Equal":                    bytesEqual,
		"bytes.Compare":                  bytesCompare,
		"internal/bytealg.Equal":         bytesEqual,
		"internal/bytealg.IndexByte":     bytealgIndexByte,
		"internal/bytealg.IndexByteString": bytealgIndexByteString,
		"internal/bytealg.CountString":   bytealgCountString,
		"internal/bytealg.IndexString":   bytealgIndexString,
		"internal/bytealg.MakeNoZero":    bytealgMakeNoZero,
		"internal/stringslite.Index":     nil,
		"strings.ToLower":                stringsCase(true),
		"strings.ToUpper":                stringsCase(false),
		"strings.TrimSpace":              stringsMap(strings.TrimSpace),
		"strings.EqualFold":              nil,
		"(*strings.Builder).String":      nil,
		// ---- net/netip
		"(net/netip.Addr).String":   opaqueString,
		"(net/netip.Prefix).String": opaqueString,
		"(net/netip.AddrPort).String": opaqueString,
		"(net.IP).String":           opaqueString,
		"(net.HardwareAddr).String": opaqueString,
		"(net.IPMask).String":       opaqueString,
		"(*net.IPNet).String":       opaqueString,
		// ---- randomness: arbitrary values
		"math/rand.Intn":    randIntn,
		"math/rand.Int31n":  randIntn,
		"math/rand.Int63n":  randIntn,
		"math/rand.Int":     randInt,
		"math/rand.Int31":   randInt,
		"math/rand.Int63":   randInt,
		"math/rand.Uint32":  randInt,
		"math/rand.Seed":    nop,
		"crypto/rand.Read":  cryptoRandRead,
		// ---- runtime
		"internal/abi.NoEscape": identity,
		"internal/abi.Escape":   identity,
		"runtime.Gosched":       nop,
		"runtime.KeepAlive":     nop,
		"runtime/debug.PrintStack": nop,
		"os.Exit":               osExit,
	}
	for k, v := range intrinsicTab {
		if v == nil {
			delete(intrinsicTab, k)
		}
	}
}

func identity(e *Engine, st *State, th *Thread, fn *ssa.Function, args []Val) Val { return args[0] }

func nop(e *Engine, st *State, th *Thread, fn *ssa.Function, args []Val) Val { return nil }

func retBool(b bool) intrinsicFn {
	return func(e *Engine, st *State, th *Thread, fn *ssa.Function, args []Val) Val {
		return BoolV{e.tb.Bool(b)}
	}
}

func retIntErr(e *Engine, st *State, th *Thread, fn *ssa.Function, args []Val) Val {
	return TupleV{IntV{e.tb.BV(0, 64)}, IfaceV{}}
}

func opaqueString(e *Engine, st *State, th *Thread, fn *ssa.Function, args []Val) Val {
	return StrV{Conc: true, S: opaqueStr}
}

func osExit(e *Engine, st *State, th *Thread, fn *ssa.Function, args []Val) Val {
	panic(pathDead{"os.Exit"})
}

// intrinsic dispatch. Returns (result, handled).
func (e *Engine) intrinsic(st *State, th *Thread, fn *ssa.Function, args []Val) (Val, bool) {
	name := fn.String()
	if fn.Pkg != nil && e.ld.harnessPkgs[fn.Pkg.Pkg.Path()] && strings.HasPrefix(fn.Name(), "verif") && fn.Signature.Recv() == nil {
		if v, ok := e.harnessCall(st, th, fn, args); ok {
			return v, true
		}
	}
	if e.threadMode {
		if v, ok := e.threadIntrinsic(st, th, name, fn, args); ok {
			return v, true
		}
	}
	if f, ok := intrinsicTab[name]; ok {
		e.stubsHit[name]++
		return f(e, st, th, fn, args), true
	}
	if v, ok := e.pkgStub(st, th, name, fn, args); ok {
		e.stubsHit[name]++
		return v, true
	}
	if strings.HasPrefix(name, "unique.Make[") {
		return e.uniqueMake(st, fn, args), true
	}
	if strings.HasPrefix(name, "(unique.Handle[") && strings.HasSuffix(name, ".Value") {
		h := args[0].(StructV)
		p := h.F[0].(PtrV)
		return e.loadPtr(st, p, fn.Signature.Results().At(0).Type()), true
	}
	if fn.Blocks == nil {
		if e.inInit {
			return OpaqueV{"result of " + name}, true
		}
		panic(engineErr("call of function without body: %s", name))
	}
	return nil, false
}

// pkgStub: configurable stubs of the code base itself (logging, OUI lookup).
func (e *Engine) pkgStub(st *State, th *Thread, name string, fn *ssa.Function, args []Val) (Val, bool) {
	tb := e.tb
	if !e.cfg.Stubs["nofastlog"] {
		switch {
		case name == "(*github.com/irai/packet/fastlog.Logger).Msg":
			return PtrV{}, true
		case name == "(*github.com/irai/packet/fastlog.Logger).IsInfo", name == "(*github.com/irai/packet/fastlog.Logger).IsDebug", name == "(*github.com/irai/packet/fastlog.Logger).IsError", name == "(*github.com/irai/packet/fastlog.Logger).IsWarn":
			return BoolV{tb.Bool(e.cfg.Stubs["logdebug"])}, true
		case strings.HasPrefix(name, "(*github.com/irai/packet/fastlog.Line)."):
			switch fn.Name() {
			case "Write":
				return IfaceV{}, true
			case "ToString":
				return StrV{Conc: true, S: opaqueStr}, true
			}
			if fn.Signature.Results().Len() == 1 {
				return args[0], true
			}
			return nil, true
		}
	}
	if name == "github.com/irai/packet.Checksum" && e.cfg.Stubs["uf-checksum"] {
		// Checksum as an uninterpreted function: arbitrary 16-bit result, argument bytes recorded
		// (C15 decides Checksum == RFC 1071 separately)
		sl := args[0].(SliceV)
		n := e.concretize(st, sl.Len)
		vals := make([]Val, n)
		for i := uint64(0); i < n; i++ {
			vals[i] = IntV{e.readByte(st, sl, tb.BV(i, 64))}
		}
		r := e.freshInt(st, "cksum", 16)
		st.events = append(st.events, Event{Kind: "checksum", Vals: []Val{ArrV{vals}, IntV{r}}})
		return IntV{r}, true
	}
	switch name {
	case "github.com/irai/packet.FindManufacturer":
		return StrV{Conc: true, S: ""}, true
	case "github.com/irai/packet.init#1":
		return nil, true
	}
	if e.cfg.Stubs[name] {
		// generic stub: zero results
		res := fn.Signature.Results()
		switch res.Len() {
		case 0:
			return nil, true
		case 1:
			return e.zero(st, res.At(0).Type()), true
		}
		return e.zero(st, res), true
	}
	return nil, false
}

// ---------------------------------------------------------------- sync

func lockOp(mode int, acquire bool) intrinsicFn {
	return func(e *Engine, st *State, th *Thread, fn *ssa.Function, args []Val) Val {
		// sequential mode: track the lock state to detect self-deadlock / unlock of unlocked mutex
		p := args[0].(PtrV)
		if p.Obj == 0 {
			e.oblige(st, e.tb.ff, "nil-dereference", fn.Pos(), "lock of nil mutex")
		}
		key := lockKey(p)
		if th.locks == nil {
			th.locks = map[int]int{}
		}
		_ = key
		cur := st.lockState(key)
		if acquire {
			if mode == 2 && cur != 0 || mode == 1 && cur < 0 {
				e.oblige(st, e.tb.ff, "self-deadlock", fn.Pos(), fn.Name()+" while already held")
			}
			if mode == 2 {
				st.setLock(key, -1)
			} else {
				st.setLock(key, cur+1)
			}
		} else {
			if mode == 2 && cur != -1 || mode == 1 && cur <= 0 {
				e.oblige(st, e.tb.ff, "unlock-of-unlocked-mutex", fn.Pos(), fn.Name())
			}
			if mode == 2 {
				st.setLock(key, 0)
			} else {
				st.setLock(key, cur-1)
			}
		}
		return nil
	}
}

type lockID struct {
	obj  int
	path string
}

func lockKey(p PtrV) lockID { return lockID{p.Obj, fmt.Sprint(p.Path)} }

func (st *State) lockState(k lockID) int { return st.locks[k] }
func (st *State) setLock(k lockID, v int) {
	n := make(map[lockID]int, len(st.locks)+1)
	for a, b := range st.locks {
		n[a] = b
	}
	if v == 0 {
		delete(n, k)
	} else {
		n[k] = v
	}
	st.locks = n
}

func poolGet(e *Engine, st *State, th *Thread, fn *ssa.Function, args []Val) Val {
	// a pooled object may be dirty: call New and let harness-level hooks scribble it
	p := args[0].(PtrV)
	pool := e.loadPtr(st, p, fn.Signature.Recv().Type().(*types.Pointer).Elem()).(StructV)
	// field "New" is the last field of sync.Pool
	newf := pool.F[len(pool.F)-1].(FuncV)
	if newf.Fn == nil {
		return IfaceV{}
	}
	// run New synchronously: push frame; result assigned by the normal return path
	panic(callInstead{fv: newf, dirty: true})
}

// callInstead lets an intrinsic redirect the call to an SSA function.
type callInstead struct {
	fv    FuncV
	args  []Val
	dirty bool
}

func atomicStore(e *Engine, st *State, th *Thread, fn *ssa.Function, args []Val) Val {
	e.storePtr(st, args[0].(PtrV), args[1])
	return nil
}
func atomicLoad(e *Engine, st *State, th *Thread, fn *ssa.Function, args []Val) Val {
	return e.loadPtr(st, args[0].(PtrV), fn.Signature.Results().At(0).Type())
}
func atomicAdd(e *Engine, st *State, th *Thread, fn *ssa.Function, args []Val) Val {
	p := args[0].(PtrV)
	v := e.loadPtr(st, p, fn.Signature.Results().At(0).Type()).(IntV)
	n := IntV{e.tb.Bin("bvadd", v.T, args[1].(IntV).T)}
	e.storePtr(st, p, n)
	return n
}
func atomicCAS(e *Engine, st *State, th *Thread, fn *ssa.Function, args []Val) Val {
	p := args[0].(PtrV)
	v := e.loadPtr(st, p, fn.Signature.Params().At(1).Type()).(IntV)
	if e.decide(st, e.tb.Cmp("=", v.T, args[1].(IntV).T)) {
		e.storePtr(st, p, args[2])
		return BoolV{e.tb.tt}
	}
	return BoolV{e.tb.ff}
}

// ---------------------------------------------------------------- time

func (e *Engine) mkTime(ns *Term) Val {
	return StructV{[]Val{IntV{e.tb.BV(0, 64)}, IntV{ns}, PtrV{}}}
}
func timeNS(v Val) *Term { return v.(StructV).F[1].(IntV).T }

// timeNow: the harness supplies the clock through verifSetClock; successive reads are non-decreasing.
func timeNow(e *Engine, st *State, th *Thread, fn *ssa.Function, args []Val) Val {
	tb := e.tb
	name := fmt.Sprintf("clock_%d", st.clockN)
	v := tb.Var(name, 64)
	lo := tb.BV(1<<40, 64)
	if st.clockLo != nil {
		lo = st.clockLo
	}
	if st.clockLast != nil {
		lo = st.clockLast
	}
	hi := tb.BV(1<<61, 64)
	if st.clockHi != nil {
		hi = st.clockHi
	}
	st.addPC(tb.Cmp("bvsle", lo, v))
	if st.clockLo != nil {
		st.addPC(tb.Cmp("bvsle", st.clockLo, v))
	}
	st.addPC(tb.Cmp("bvslt", v, hi))
	if st.clockFrozen {
		if st.clockLast != nil {
			return e.mkTime(st.clockLast)
		}
	}
	st.clockN++
	st.clockLast = v
	st.inputs = append(st.inputs, Input{Kind: "int", Name: name, W: 64, Seq: -1})
	return e.mkTime(v)
}
func timeSince(e *Engine, st *State, th *Thread, fn *ssa.Function, args []Val) Val {
	now := timeNow(e, st, th, fn, nil)
	return IntV{e.tb.Bin("bvsub", timeNS(now), timeNS(args[0]))}
}
func timeUntil(e *Engine, st *State, th *Thread, fn *ssa.Function, args []Val) Val {
	now := timeNow(e, st, th, fn, nil)
	return IntV{e.tb.Bin("bvsub", timeNS(args[0]), timeNS(now))}
}
func timeAdd(e *Engine, st *State, th *Thread, fn *ssa.Function, args []Val) Val {
	return e.mkTime(e.tb.Bin("bvadd", timeNS(args[0]), args[1].(IntV).T))
}
func timeSub(e *Engine, st *State, th *Thread, fn *ssa.Function, args []Val) Val {
	return IntV{e.tb.Bin("bvsub", timeNS(args[0]), timeNS(args[1]))}
}
func timeCmp(op string, swap bool) intrinsicFn {
	return func(e *Engine, st *State, th *Thread, fn *ssa.Function, args []Val) Val {
		a, b := timeNS(args[0]), timeNS(args[1])
		if swap {
			a, b = b, a
		}
		return BoolV{e.tb.Cmp(op, a, b)}
	}
}
func timeIsZero(e *Engine, st *State, th *Thread, fn *ssa.Function, args []Val) Val {
	return BoolV{e.tb.Cmp("=", timeNS(args[0]), e.tb.BV(0, 64))}
}
func timeUnixNano(e *Engine, st *State, th *Thread, fn *ssa.Function, args []Val) Val {
	return IntV{timeNS(args[0])}
}
func timeAfter(e *Engine, st *State, th *Thread, fn *ssa.Function, args []Val) Val {
	o := st.newObj(e, okChan, "time.After")
	o.timer = true
	return ChanV{o.id}
}
func timeNewTicker(e *Engine, st *State, th *Thread, fn *ssa.Function, args []Val) Val {
	o := st.newObj(e, okChan, "ticker")
	o.timer = true
	// *Ticker{C <-chan Time, ...}: build the struct with field 0 = channel
	tt := fn.Signature.Results().At(0).Type().(*types.Pointer).Elem()
	sv := e.zero(st, tt).(StructV)
	sv.F[0] = ChanV{o.id}
	t := st.newVal(e, sv, "ticker")
	return PtrV{Obj: t.id}
}

// ---------------------------------------------------------------- fmt / errors

func (e *Engine) namedType(pkg, name string) types.Type {
	p := e.prog.ImportedPackage(pkg)
	if p == nil {
		for _, q := range e.prog.AllPackages() {
			if q.Pkg.Path() == pkg {
				p = q
				break
			}
		}
	}
	if p == nil {
		panic(engineErr("package %s not loaded", pkg))
	}
	m := p.Members[name]
	if m == nil {
		panic(engineErr("type %s.%s not found", pkg, name))
	}
	return m.(*ssa.Type).Type()
}

func fmtErrorf(e *Engine, st *State, th *Thread, fn *ssa.Function, args []Val) Val {
	if e.cfg.TrackAlloc {
		fr := th.top()
		e.noteAlloc(st, fr, "fmt.Errorf", fn.Pos())
	}
	// find a wrapped error (%w) among the variadic arguments
	var wrapped Val = IfaceV{}
	if f, ok := args[0].(StrV); ok && f.Conc && strings.Contains(f.S, "%w") {
		if sl, ok := args[1].(SliceV); ok && sl.Obj != 0 {
			n := int(sl.Len.C)
			vals := getPath(st.obj(sl.Obj).v, sl.Base).(ArrV).E
			errT := types.Universe.Lookup("error").Type().Underlying().(*types.Interface)
			for i := 0; i < n; i++ {
				if iv, ok := vals[int(sl.Off.C)+i].(IfaceV); ok && iv.T != nil && types.Implements(iv.T, errT) {
					wrapped = iv
				}
			}
		}
	}
	wt := e.namedType("fmt", "wrapError")
	o := st.newVal(e, StructV{[]Val{StrV{Conc: true, S: opaqueStr}, wrapped}}, "fmt.Errorf")
	return IfaceV{T: types.NewPointer(wt), V: PtrV{Obj: o.id}}
}

func errorsIs(e *Engine, st *State, th *Thread, fn *ssa.Function, args []Val) Val {
	err, target := args[0].(IfaceV), args[1].(IfaceV)
	for depth := 0; depth < 8; depth++ {
		if err.T == nil {
			return BoolV{e.tb.Bool(target.T == nil)}
		}
		if target.T != nil && types.Identical(err.T, target.T) {
			c := e.eq(err.V, target.V)
			if e.decide(st, c) {
				return BoolV{e.tb.tt}
			}
		}
		// unwrap: only *fmt.wrapError chains are followed
		if pt, ok := err.T.(*types.Pointer); ok {
			if nt, ok := pt.Elem().(*types.Named); ok && nt.Obj().Name() == "wrapError" && nt.Obj().Pkg().Path() == "fmt" {
				sv := st.obj(err.V.(PtrV).Obj).v.(StructV)
				err = sv.F[1].(IfaceV)
				continue
			}
		}
		return BoolV{e.tb.ff}
	}
	return BoolV{e.tb.ff}
}

// ---------------------------------------------------------------- bytes / strings

func (e *Engine) bytesEqTerm(st *State, a, b SliceV) *Term {
	tb := e.tb
	lenEq := tb.Cmp("=", a.Len, b.Len)
	if lenEq.IsFalse() {
		return tb.ff
	}
	if !e.decide(st, lenEq) {
		return tb.ff
	}
	n := e.concretize(st, a.Len)
	if n > 4096 {
		panic(engineErr("bytes.Equal on %d bytes", n))
	}
	r := tb.tt
	for i := uint64(0); i < n; i++ {
		r = tb.And(r, tb.Cmp("=", e.readByte(st, a, tb.BV(i, 64)), e.readByte(st, b, tb.BV(i, 64))))
		if r.IsFalse() {
			break
		}
	}
	return r
}

func bytesEqual(e *Engine, st *State, th *Thread, fn *ssa.Function, args []Val) Val {
	as, aok := args[0].(SliceV)
	bs, bok := args[1].(SliceV)
	if !aok || !bok {
		// string variant
		return BoolV{e.strEq(args[0].(StrV), args[1].(StrV))}
	}
	return BoolV{e.bytesEqTerm(st, as, bs)}
}

func bytesCompare(e *Engine, st *State, th *Thread, fn *ssa.Function, args []Val) Val {
	tb := e.tb
	a, b := args[0].(SliceV), args[1].(SliceV)
	na, nb := e.concretize(st, a.Len), e.concretize(st, b.Len)
	n := na
	if nb < n {
		n = nb
	}
	// lexicographic: result as nested ite over the common prefix
	var tail *Term
	switch {
	case na < nb:
		tail = tb.BV(^uint64(0), 64)
	case na > nb:
		tail = tb.BV(1, 64)
	default:
		tail = tb.BV(0, 64)
	}
	r := tail
	for i := int(n) - 1; i >= 0; i-- {
		x, y := e.readByte(st, a, tb.BV(uint64(i), 64)), e.readByte(st, b, tb.BV(uint64(i), 64))
		r = tb.Ite(tb.Cmp("bvult", x, y), tb.BV(^uint64(0), 64), tb.Ite(tb.Cmp("bvult", y, x), tb.BV(1, 64), r))
	}
	return IntV{r}
}

func (e *Engine) concBytes(st *State, s SliceV) ([]byte, bool) {
	if s.Obj == 0 {
		return nil, true
	}
	if !s.Len.IsConst() {
		return nil, false
	}
	out := make([]byte, s.Len.C)
	for i := range out {
		t := e.readByte(st, s, e.tb.BV(uint64(i), 64))
		if !t.IsConst() {
			return nil, false
		}
		out[i] = byte(t.C)
	}
	return out, true
}

func bytealgIndexByte(e *Engine, st *State, th *Thread, fn *ssa.Function, args []Val) Val {
	tb := e.tb
	s := args[0].(SliceV)
	c := args[1].(IntV).T
	n := e.concretize(st, s.Len)
	// first index with s[i]==c: fork per position
	for i := uint64(0); i < n; i++ {
		if e.decide(st, tb.Cmp("=", e.readByte(st, s, tb.BV(i, 64)), c)) {
			return IntV{tb.BV(i, 64)}
		}
	}
	return IntV{tb.BV(^uint64(0), 64)}
}

func bytealgIndexByteString(e *Engine, st *State, th *Thread, fn *ssa.Function, args []Val) Val {
	tb := e.tb
	s := args[0].(StrV)
	c := args[1].(IntV).T
	bs := e.strBytes(s)
	for i, b := range bs {
		if e.decide(st, tb.Cmp("=", b, c)) {
			return IntV{tb.BV(uint64(i), 64)}
		}
	}
	return IntV{tb.BV(^uint64(0), 64)}
}

func bytealgCountString(e *Engine, st *State, th *Thread, fn *ssa.Function, args []Val) Val {
	s := args[0].(StrV)
	c := args[1].(IntV).T
	if !s.Conc || !c.IsConst() {
		panic(engineErr("bytealg.CountString on symbolic data"))
	}
	return IntV{e.tb.BV(uint64(strings.Count(s.S, string([]byte{byte(c.C)}))), 64)}
}

func bytealgIndexString(e *Engine, st *State, th *Thread, fn *ssa.Function, args []Val) Val {
	a, b := args[0].(StrV), args[1].(StrV)
	if !a.Conc || !b.Conc {
		panic(engineErr("bytealg.IndexString on symbolic data"))
	}
	return IntV{e.tb.BV(uint64(int64(strings.Index(a.S, b.S))), 64)}
}

func bytealgMakeNoZero(e *Engine, st *State, th *Thread, fn *ssa.Function, args []Val) Val {
	n := args[0].(IntV).T
	o := st.newBytes(e, aZeroArr, n, "MakeNoZero")
	return SliceV{Obj: o.id, Off: e.tb.BV(0, 64), Len: n, Cap: n}
}

// stringsCase: ASCII case mapping on symbolic strings (non-ASCII bytes are outside the model).
func stringsCase(lower bool) intrinsicFn {
	return func(e *Engine, st *State, th *Thread, fn *ssa.Function, args []Val) Val {
		tb := e.tb
		s := args[0].(StrV)
		if s.Conc {
			if s.S == opaqueStr {
				return s
			}
			if lower {
				return StrV{Conc: true, S: strings.ToLower(s.S)}
			}
			return StrV{Conc: true, S: strings.ToUpper(s.S)}
		}
		out := make([]*Term, len(s.B))
		for i, b := range s.B {
			if !e.decide(st, tb.Cmp("bvult", b, tb.BV(0x80, 8))) {
				panic(engineErr("%s on non-ASCII symbolic string", fn.Name()))
			}
			lo, hi, d := uint64('A'), uint64('Z'), uint64(32)
			if !lower {
				lo, hi, d = 'a', 'z', 256-32
			}
			in := tb.And(tb.Cmp("bvule", tb.BV(lo, 8), b), tb.Cmp("bvule", b, tb.BV(hi, 8)))
			out[i] = tb.Ite(in, tb.Bin("bvadd", b, tb.BV(d, 8)), b)
		}
		return e.normStr(StrV{B: out})
	}
}

func stringsMap(f func(string) string) intrinsicFn {
	return func(e *Engine, st *State, th *Thread, fn *ssa.Function, args []Val) Val {
		s := args[0].(StrV)
		if !s.Conc {
			panic(engineErr("%s on symbolic string", fn.Name()))
		}
		if s.S == opaqueStr {
			return s
		}
		return StrV{Conc: true, S: f(s.S)}
	}
}

// ---------------------------------------------------------------- randomness

func (e *Engine) freshInt(st *State, prefix string, w int) *Term {
	name := fmt.Sprintf("%s_%d", prefix, len(st.inputs))
	st.inputs = append(st.inputs, Input{Kind: "int", Name: name, W: w, Seq: -1})
	return e.tb.Var(name, w)
}

func randIntn(e *Engine, st *State, th *Thread, fn *ssa.Function, args []Val) Val {
	n := args[0].(IntV).T
	v := e.freshInt(st, "rand", n.W)
	st.addPC(e.tb.Cmp("bvult", v, n))
	return IntV{v}
}
func randInt(e *Engine, st *State, th *Thread, fn *ssa.Function, args []Val) Val {
	w, _, _ := intWidth(fn.Signature.Results().At(0).Type())
	v := e.freshInt(st, "rand", w)
	if fn.Name() != "Uint32" {
		st.addPC(e.tb.Cmp("bvsle", e.tb.BV(0, w), v))
	}
	return IntV{v}
}
func cryptoRandRead(e *Engine, st *State, th *Thread, fn *ssa.Function, args []Val) Val {
	s := args[0].(SliceV)
	n := e.concretize(st, s.Len)
	name := fmt.Sprintf("randbuf_%d", len(st.inputs))
	st.inputs = append(st.inputs, Input{Kind: "bytes", Name: name, N: int(n), Seq: -1})
	if n > 0 {
		d := st.mut(s.Obj)
		d.arr = e.arrCopy(d.arr, s.Off, &Arr{kind: aBase, name: name}, e.tb.BV(0, 64), e.tb.BV(n, 64))
	}
	return TupleV{IntV{e.tb.BV(n, 64)}, IfaceV{}}
}

// ---------------------------------------------------------------- unique (netip zone handles)

func (e *Engine) uniqueMake(st *State, fn *ssa.Function, args []Val) Val {
	key := fmt.Sprintf("%s|%s", fn.String(), e.valKey(args[0]))
	id, ok := e.handles[key]
	if !ok {
		e.nextObj++
		o := &Object{id: e.nextObj, kind: okVal, v: args[0], site: "unique.Make"}
		e.root[o.id] = o
		id = o.id
		e.handles[key] = id
	}
	return StructV{[]Val{PtrV{Obj: id}}}
}

func (e *Engine) valKey(v Val) string {
	switch x := v.(type) {
	case IntV:
		if !x.T.IsConst() {
			panic(engineErr("unique.Make of symbolic value"))
		}
		return fmt.Sprintf("%d", x.T.C)
	case BoolV:
		if !x.T.IsConst() {
			panic(engineErr("unique.Make of symbolic value"))
		}
		return x.T.Op
	case StrV:
		if !x.Conc {
			panic(engineErr("unique.Make of symbolic string"))
		}
		return fmt.Sprintf("%q", x.S)
	case StructV:
		var p []string
		for _, f := range x.F {
			p = append(p, e.valKey(f))
		}
		return "{" + strings.Join(p, ",") + "}"
	}
	panic(engineErr("unique.Make of %T", v))
}


// reflectKind: reflect.Kind of a dynamic type.
func reflectKind(t types.Type) int {
	if t == nil {
		return 0
	}
	switch u := t.Underlying().(type) {
	case *types.Basic:
		switch u.Kind() {
		case types.Bool:
			return 1
		case types.Int:
			return 2
		case types.Int8:
			return 3
		case types.Int16:
			return 4
		case types.Int32:
			return 5
		case types.Int64:
			return 6
		case types.Uint:
			return 7
		case types.Uint8:
			return 8
		case types.Uint16:
			return 9
		case types.Uint32:
			return 10
		case types.Uint64:
			return 11
		case types.Uintptr:
			return 12
		case types.Float32:
			return 13
		case types.Float64:
			return 14
		case types.String:
			return 24
		case types.UnsafePointer:
			return 26
		}
	case *types.Array:
		return 17
	case *types.Chan:
		return 18
	case *types.Signature:
		return 19
	case *types.Interface:
		return 20
	case *types.Map:
		return 21
	case *types.Pointer:
		return 22
	case *types.Slice:
		return 23
	case *types.Struct:
		return 25
	}
	panic(engineErr("reflect kind of %s", t))
}
