package main

import (
	"fmt"
	"go/types"

	"golang.org/x/tools/go/ssa"
)

// ---------------------------------------------------------------- values

type Val interface{}

type IntV struct{ T *Term }  // any integer type; width = T.W
type BoolV struct{ T *Term } // T.W == 0
type StrV struct {
	Conc bool
	S    string  // concrete
	B    []*Term // symbolic bytes (concrete length), immutable
}
type PtrV struct {
	Obj  int    // 0 = nil
	Path []int  // path into a value object
	Idx  *Term  // byte index into a bytes object (nil for value objects)
	Fn   string // non-empty: opaque pointer identity (e.g. unique handles)
}
type SliceV struct {
	Obj           int // 0 = nil slice
	Off, Len, Cap *Term
	Base          []int // for value objects: path to the ArrV holding the elements
}
type StructV struct{ F []Val }
type ArrV struct{ E []Val }
type TupleV []Val
type IfaceV struct {
	T types.Type // nil = nil interface
	V Val
}
type MapV struct{ Obj int }
type ChanV struct{ Obj int }
type FuncV struct {
	Fn   *ssa.Function // nil = nil func
	Bind []Val
}
type FloatV struct{ F float64 } // concrete floats only
type OpaqueV struct{ What string } // poison: any use is an engine error
type EmbV struct{ Obj int }        // large byte array embedded in a struct: separate bytes object

// ---------------------------------------------------------------- byte arrays

const (
	aBase = iota
	aZero
	aStore
	aCopy
)

// Arr is a persistent layered byte array: base (named symbolic array or
// zeros) plus point stores and bulk copies. Reads resolve through the layers
// to a term; only selects on named base arrays reach the solver.
type Arr struct {
	kind       int
	parent     *Arr
	name       string
	idx, val   *Term
	src        *Arr
	so, do, n  *Term
	depth      int
}

// ---------------------------------------------------------------- objects

const (
	okBytes = iota
	okVal
	okMap
	okChan
)

type mapEntry struct {
	K, V Val
}

type Object struct {
	id   int
	kind int
	// bytes
	arr *Arr
	n   *Term // size in bytes (64-bit term)
	// value object
	v Val
	// map
	ents   []mapEntry
	// chan
	q      []Val
	qcap   int
	closed bool
	timer  bool // time.After-style channel: receive always possible
	// metadata
	typ   types.Type
	site  string
	tag   string // "input": the caller's packet buffer (provenance / capacity monitor)
	limit *Term  // for tagged input objects: the visible length
	thr   int    // allocating thread (thread mode)
}

func (o *Object) clone() *Object { c := *o; return &c }

// ---------------------------------------------------------------- helpers

func intWidth(t types.Type) (int, bool, bool) { // width, signed, isInt
	b, ok := t.Underlying().(*types.Basic)
	if !ok {
		return 0, false, false
	}
	switch b.Kind() {
	case types.Int8:
		return 8, true, true
	case types.Uint8:
		return 8, false, true
	case types.Int16:
		return 16, true, true
	case types.Uint16:
		return 16, false, true
	case types.Int32, types.UntypedRune:
		return 32, true, true
	case types.Uint32:
		return 32, false, true
	case types.Int, types.Int64, types.UntypedInt:
		return 64, true, true
	case types.Uint, types.Uint64, types.Uintptr:
		return 64, false, true
	}
	return 0, false, false
}

func isByteType(t types.Type) bool {
	w, _, ok := intWidth(t)
	return ok && w == 8
}

func isByteArray(t types.Type) (int64, bool) {
	a, ok := t.Underlying().(*types.Array)
	if ok && isByteType(a.Elem()) {
		return a.Len(), true
	}
	return 0, false
}

func isByteSlice(t types.Type) bool {
	s, ok := t.Underlying().(*types.Slice)
	return ok && isByteType(s.Elem())
}

const embThreshold = 64 // byte arrays larger than this inside structs become separate objects

func (e *Engine) zero(st *State, t types.Type) Val {
	tb := e.tb
	switch u := t.Underlying().(type) {
	case *types.Basic:
		if w, _, ok := intWidth(t); ok {
			return IntV{tb.BV(0, w)}
		}
		switch {
		case u.Info()&types.IsBoolean != 0:
			return BoolV{tb.ff}
		case u.Info()&types.IsString != 0:
			return StrV{Conc: true}
		case u.Info()&types.IsFloat != 0:
			return FloatV{0}
		case u.Kind() == types.UnsafePointer:
			return PtrV{}
		case u.Kind() == types.UntypedNil:
			return PtrV{}
		}
	case *types.Pointer:
		return PtrV{}
	case *types.Slice:
		return SliceV{Off: tb.BV(0, 64), Len: tb.BV(0, 64), Cap: tb.BV(0, 64)}
	case *types.Map:
		return MapV{}
	case *types.Chan:
		return ChanV{}
	case *types.Signature:
		return FuncV{}
	case *types.Interface:
		return IfaceV{}
	case *types.Struct:
		sv := StructV{F: make([]Val, u.NumFields())}
		for i := 0; i < u.NumFields(); i++ {
			ft := u.Field(i).Type()
			if n, ok := isByteArray(ft); ok {
				if st == nil {
					panic(engineErr("zero value of struct with byte array without a state"))
				}
				o := st.newBytes(e, aZeroArr, tb.BV(uint64(n), 64), "embedded")
				sv.F[i] = EmbV{o.id}
				continue
			}
			sv.F[i] = e.zero(st, ft)
		}
		return sv
	case *types.Array:
		av := ArrV{E: make([]Val, u.Len())}
		if u.Len() > 0 {
			z := e.zero(st, u.Elem())
			for i := range av.E {
				if i == 0 {
					av.E[i] = z
				} else {
					switch u.Elem().Underlying().(type) {
					case *types.Struct, *types.Array:
						av.E[i] = e.zero(st, u.Elem())
					default:
						av.E[i] = z
					}
				}
			}
		}
		return av
	case *types.Tuple:
		tv := make(TupleV, u.Len())
		for i := range tv {
			tv[i] = e.zero(st, u.At(i).Type())
		}
		return tv
	}
	panic(engineErr("zero value of " + t.String()))
}

var aZeroArr = &Arr{kind: aZero}

type engineError struct{ msg string }

func (e engineError) Error() string { return e.msg }
func engineErr(format string, a ...interface{}) engineError {
	return engineError{fmt.Sprintf(format, a...)}
}

// pathDead is panicked to abandon the current path (infeasible or finished by a reported failure).
type pathDead struct{ why string }

func copyPath(p []int, extra ...int) []int {
	n := make([]int, 0, len(p)+len(extra))
	n = append(n, p...)
	n = append(n, extra...)
	return n
}

func getPath(v Val, path []int) Val {
	for _, p := range path {
		switch x := v.(type) {
		case StructV:
			v = x.F[p]
		case ArrV:
			if p >= len(x.E) {
				panic(engineErr("getPath: index %d out of %d", p, len(x.E)))
			}
			v = x.E[p]
		case TupleV:
			v = x[p]
		default:
			panic(engineErr("getPath through %T", v))
		}
	}
	return v
}

func setPath(v Val, path []int, nv Val) Val {
	if len(path) == 0 {
		return nv
	}
	switch x := v.(type) {
	case StructV:
		nf := append([]Val{}, x.F...)
		nf[path[0]] = setPath(x.F[path[0]], path[1:], nv)
		return StructV{nf}
	case ArrV:
		nf := append([]Val{}, x.E...)
		nf[path[0]] = setPath(x.E[path[0]], path[1:], nv)
		return ArrV{nf}
	}
	panic(engineErr("setPath through %T", v))
}

func samePath(a, b []int) bool {
	if len(a) != len(b) {
		return false
	}
	for i := range a {
		if a[i] != b[i] {
			return false
		}
	}
	return true
}

// eq builds the term "a == b" for comparable Go values.
func (e *Engine) eq(a, b Val) *Term {
	tb := e.tb
	switch x := a.(type) {
	case nil:
		return tb.Bool(b == nil)
	case IntV:
		y, ok := b.(IntV)
		if !ok {
			return tb.ff
		}
		return tb.Cmp("=", x.T, y.T)
	case BoolV:
		y, ok := b.(BoolV)
		if !ok {
			return tb.ff
		}
		return tb.Iff(x.T, y.T)
	case FloatV:
		y, ok := b.(FloatV)
		return tb.Bool(ok && x.F == y.F)
	case StrV:
		y, ok := b.(StrV)
		if !ok {
			return tb.ff
		}
		return e.strEq(x, y)
	case PtrV:
		y, ok := b.(PtrV)
		if !ok {
			return tb.ff
		}
		if x.Obj != y.Obj || x.Fn != y.Fn || !samePath(x.Path, y.Path) {
			return tb.ff
		}
		if x.Idx != nil && y.Idx != nil {
			return tb.Cmp("=", x.Idx, y.Idx)
		}
		return tb.tt
	case StructV:
		y, ok := b.(StructV)
		if !ok || len(x.F) != len(y.F) {
			return tb.ff
		}
		r := tb.tt
		for i := range x.F {
			r = tb.And(r, e.eq(x.F[i], y.F[i]))
			if r.IsFalse() {
				break
			}
		}
		return r
	case ArrV:
		y, ok := b.(ArrV)
		if !ok || len(x.E) != len(y.E) {
			return tb.ff
		}
		r := tb.tt
		for i := range x.E {
			r = tb.And(r, e.eq(x.E[i], y.E[i]))
			if r.IsFalse() {
				break
			}
		}
		return r
	case TupleV:
		y, ok := b.(TupleV)
		if !ok || len(x) != len(y) {
			return tb.ff
		}
		r := tb.tt
		for i := range x {
			r = tb.And(r, e.eq(x[i], y[i]))
		}
		return r
	case IfaceV:
		y, ok := b.(IfaceV)
		if !ok {
			return tb.ff
		}
		if x.T == nil || y.T == nil {
			return tb.Bool(x.T == nil && y.T == nil)
		}
		if !types.Identical(x.T, y.T) {
			return tb.ff
		}
		return e.eq(x.V, y.V)
	case MapV:
		y, ok := b.(MapV)
		return tb.Bool(ok && x.Obj == y.Obj)
	case ChanV:
		y, ok := b.(ChanV)
		return tb.Bool(ok && x.Obj == y.Obj)
	case FuncV:
		y, ok := b.(FuncV)
		return tb.Bool(ok && x.Fn == y.Fn && x.Fn == nil)
	case SliceV:
		// only comparison with nil is legal Go
		y, ok := b.(SliceV)
		if !ok {
			return tb.ff
		}
		if x.Obj != 0 && y.Obj != 0 {
			// used by the lasso check only
			if x.Obj != y.Obj {
				return tb.ff
			}
			return tb.AndN(tb.Cmp("=", x.Off, y.Off), tb.Cmp("=", x.Len, y.Len), tb.Cmp("=", x.Cap, y.Cap))
		}
		return tb.Bool(x.Obj == 0 && y.Obj == 0)
	case EmbV:
		y, ok := b.(EmbV)
		return tb.Bool(ok && x.Obj == y.Obj)
	case OpaqueV:
		panic(engineErr("comparison of opaque value (%s)", x.What))
	}
	panic(engineErr("eq on %T", a))
}

func (e *Engine) strBytes(s StrV) []*Term {
	if !s.Conc {
		return s.B
	}
	r := make([]*Term, len(s.S))
	for i := 0; i < len(s.S); i++ {
		r[i] = e.tb.BV(uint64(s.S[i]), 8)
	}
	return r
}

func strLen(s StrV) int {
	if s.Conc {
		return len(s.S)
	}
	return len(s.B)
}

func (e *Engine) strEq(x, y StrV) *Term {
	tb := e.tb
	if x.Conc && y.Conc {
		return tb.Bool(x.S == y.S)
	}
	if strLen(x) != strLen(y) {
		return tb.ff
	}
	xb, yb := e.strBytes(x), e.strBytes(y)
	r := tb.tt
	for i := range xb {
		r = tb.And(r, tb.Cmp("=", xb[i], yb[i]))
		if r.IsFalse() {
			break
		}
	}
	return r
}

// normStr turns an all-constant symbolic string into a concrete one.
func (e *Engine) normStr(s StrV) StrV {
	if s.Conc {
		return s
	}
	buf := make([]byte, len(s.B))
	for i, t := range s.B {
		if !t.IsConst() {
			return s
		}
		buf[i] = byte(t.C)
	}
	return StrV{Conc: true, S: string(buf)}
}
