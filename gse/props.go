package main

import (
	"bufio"
	"crypto/sha256"
	"encoding/json"
	"flag"
	"fmt"
	"os"
	"os/exec"
	"path/filepath"
	"runtime"
	"sort"
	"strconv"
	"strings"
	"time"
)

// Prop describes how one property is decided.
type Prop struct {
	ID          string
	Jobs        func(tier string) []Job
	Bounds      func(tier string) map[string]string
	Assumptions []string
	Outside     []string // explicitly outside the claim
	Technique   string
	Filter      func(f Finding) bool // which findings of the (shared) jobs belong to this property (nil: all)
}

var props = map[string]*Prop{}

func register(p *Prop) { props[p.ID] = p }

func propIDs() []string {
	var ids []string
	for id := range props {
		ids = append(ids, id)
	}
	sort.Strings(ids)
	return ids
}

// ---------------------------------------------------------------- known findings

type knownFinding struct {
	status string // known / fixed
	prop   string
	key    string
	text   string
}

func loadKnown() []knownFinding {
	f, err := os.Open(filepath.Join(verifDir, "known_findings.txt"))
	if err != nil {
		return nil
	}
	defer f.Close()
	var out []knownFinding
	sc := bufio.NewScanner(f)
	sc.Buffer(make([]byte, 1<<20), 1<<20)
	for sc.Scan() {
		l := strings.TrimSpace(sc.Text())
		if l == "" || strings.HasPrefix(l, "#") {
			continue
		}
		// known: property=C01 key=<key> :: text      |  fixed: property=C01 <commit> key=<key> :: text
		var kf knownFinding
		switch {
		case strings.HasPrefix(l, "known:"):
			kf.status = "known"
			l = strings.TrimSpace(strings.TrimPrefix(l, "known:"))
		case strings.HasPrefix(l, "fixed:"):
			kf.status = "fixed"
			l = strings.TrimSpace(strings.TrimPrefix(l, "fixed:"))
		default:
			continue
		}
		parts := strings.SplitN(l, " :: ", 2)
		if len(parts) == 2 {
			kf.text = parts[1]
		}
		head := parts[0]
		if i := strings.Index(head, "key="); i >= 0 {
			kf.key = strings.TrimSpace(head[i+4:])
			head = head[:i]
		}
		for _, f := range strings.Fields(head) {
			if strings.HasPrefix(f, "property=") {
				kf.prop = strings.TrimPrefix(f, "property=")
			}
		}
		out = append(out, kf)
	}
	return out
}

// ---------------------------------------------------------------- replay

type replayCase struct {
	Prop    string  `json:"property"`
	Pkg     string  `json:"pkg"`
	Func    string  `json:"func"`
	Args    []int64 `json:"args"`
	Kind    string  `json:"kind"`
	Key     string  `json:"key"`
	Expect  string  `json:"expect"` // PANIC / ASSERT:<id> / HANG
	Ints    []uint64 `json:"tape_ints"`
	Bytes   []string `json:"tape_bytes"` // hex
	Clamp   bool     `json:"clamp_cap"`
	Where   string   `json:"where"`
}

func expectFor(f Finding) string {
	switch f.Kind {
	case "assert":
		id := f.Expr
		if i := strings.Index(id, ":"); i >= 0 && strings.Contains(id, " ") {
			id = id[:i]
		}
		return "ASSERT:" + id
	case "non-termination", "blocks-forever", "self-deadlock", "deadlock":
		return "HANG"
	case "data-race":
		// "<site a> <-> <site b>": the native race report must name both functions
		var fns []string
		for _, side := range strings.Split(f.Expr, " <-> ") {
			fn := side
			if i := strings.Index(fn, " ["); i >= 0 {
				fn = fn[:i]
			}
			if i := strings.LastIndex(fn, "."); i >= 0 {
				fn = fn[i+1:]
			}
			fns = append(fns, strings.TrimSuffix(fn, ")"))
		}
		return "RACE:" + strings.Join(fns, ",")
	}
	return "PANIC"
}

func buildReplayCase(prop string, f Finding) *replayCase {
	if f.Model == nil {
		return nil
	}
	rc := &replayCase{Prop: prop, Pkg: f.Job.Pkg, Func: f.Job.Func, Args: f.Job.Args, Kind: f.Kind, Key: f.Key, Expect: expectFor(f), Where: f.Func + " " + f.Pos}
	rc.Clamp = f.Kind == "reslice-beyond-length"
	n := 0
	for _, in := range f.Inputs {
		if in.Seq+1 > n {
			n = in.Seq + 1
		}
	}
	rc.Ints = make([]uint64, n)
	rc.Bytes = make([]string, n)
	for _, in := range f.Inputs {
		if in.Seq < 0 {
			continue
		}
		switch in.Kind {
		case "int", "bool":
			rc.Ints[in.Seq] = f.Model.Vars[in.Name]
		case "const":
			rc.Ints[in.Seq] = in.Val
		case "bytes":
			b := make([]byte, in.N)
			for i := range b {
				b[i] = f.Model.Arr[in.Name][uint64(i)]
			}
			rc.Bytes[in.Seq] = fmt.Sprintf("%x", b)
		}
	}
	return rc
}

func pkgDirOf(pkg string) string {
	if pkg == "root" || pkg == "" {
		return ""
	}
	return pkg
}

// writeReplay stores the case under /verif/replay/<prop>/<n>/ and returns the path of case.json.
func writeReplay(rc *replayCase, n int) (string, error) {
	dir := filepath.Join(verifDir, "replay", rc.Prop, fmt.Sprintf("case%03d", n))
	if err := os.MkdirAll(dir, 0o755); err != nil {
		return "", err
	}
	b, _ := json.MarshalIndent(rc, "", " ")
	p := filepath.Join(dir, "case.json")
	return p, os.WriteFile(p, b, 0o644)
}

// runReplay executes a replay case natively against /repo (go test -overlay); returns the observed outcome.
func runReplay(casePath string) (string, string, error) {
	b, err := os.ReadFile(casePath)
	if err != nil {
		return "", "", err
	}
	var rc replayCase
	if err := json.Unmarshal(b, &rc); err != nil {
		return "", "", err
	}
	dir := filepath.Dir(casePath)
	pkgName := "packet"
	if rc.Pkg != "root" && rc.Pkg != "" {
		pkgName = filepath.Base(rc.Pkg)
	}
	var sb strings.Builder
	fmt.Fprintf(&sb, "package %s\n\nimport (\n\t\"encoding/hex\"\n\t\"fmt\"\n\t\"strings\"\n\t\"testing\"\n\t\"time\"\n)\n\n", pkgName)
	sb.WriteString("func TestVerifReplay(t *testing.T) {\n")
	sb.WriteString("\tverifTapeInts = []uint64{")
	for _, v := range rc.Ints {
		fmt.Fprintf(&sb, "%d, ", v)
	}
	sb.WriteString("}\n\tfor _, h := range []string{")
	for _, h := range rc.Bytes {
		fmt.Fprintf(&sb, "%q, ", h)
	}
	sb.WriteString("} {\n\t\tb, _ := hex.DecodeString(h)\n\t\tverifTapeBytes = append(verifTapeBytes, b)\n\t}\n")
	fmt.Fprintf(&sb, "\tverifClampCap = %v\n", rc.Clamp)
	iters := 1
	if rc.Kind == "data-race" || rc.Kind == "deadlock" {
		iters = 40 // schedule dependent: repeat with real goroutines
	}
	fmt.Fprintf(&sb, "\tfor verifIter := 0; verifIter < %d; verifIter++ {\n\tverifTapePos, verifFailures = 0, nil\n", iters)
	sb.WriteString("\tdone := make(chan string, 1)\n\tgo func() {\n\t\tdefer func() {\n\t\t\tif r := recover(); r != nil {\n\t\t\t\tif _, ok := r.(verifAssumption); ok {\n\t\t\t\t\tdone <- \"ASSUME\"\n\t\t\t\t\treturn\n\t\t\t\t}\n\t\t\t\tdone <- fmt.Sprintf(\"PANIC: %v ASSERT:%s\", r, strings.Join(verifFailures, \",\"))\n\t\t\t\treturn\n\t\t\t}\n\t\t\tif len(verifFailures) > 0 {\n\t\t\t\tdone <- \"ASSERT:\" + strings.Join(verifFailures, \",\")\n\t\t\t\treturn\n\t\t\t}\n\t\t\tdone <- \"OK\"\n\t\t}()\n")
	var args []string
	for _, a := range rc.Args {
		args = append(args, strconv.FormatInt(a, 10))
	}
	fmt.Fprintf(&sb, "\t\t%s(%s)\n\t}()\n", rc.Func, strings.Join(args, ", "))
	sb.WriteString("\tselect {\n\tcase r := <-done:\n\t\tfmt.Println(\"VERIF-REPLAY-RESULT\", r)\n\t\tif r != \"OK\" {\n\t\t\treturn\n\t\t}\n\tcase <-time.After(20 * time.Second):\n\t\tfmt.Println(\"VERIF-REPLAY-RESULT HANG\")\n\t\treturn\n\t}\n\t}\n}\n")
	testFile := filepath.Join(dir, "replay_test.go")
	if err := os.WriteFile(testFile, []byte(sb.String()), 0o644); err != nil {
		return "", "", err
	}
	// overlay: harness files of that package + generated + the test
	ov := map[string]string{}
	for _, hd := range []string{filepath.Join(verifDir, "harness"), filepath.Join(verifDir, ".gen")} {
		m, _ := harnessOverlayPaths(hd)
		for virt, real := range m {
			ov[virt] = real
		}
	}
	pdir := pkgDirOf(rc.Pkg)
	ov[filepath.Join(repoDir, pdir, "zz_verif_replay_test.go")] = testFile
	ovb, _ := json.Marshal(map[string]interface{}{"Replace": ov})
	ovFile := filepath.Join(dir, "overlay.json")
	os.WriteFile(ovFile, ovb, 0o644)
	target := "./" + pdir
	if pdir == "" {
		target = "."
	}
	cmd := exec.Command("go", "test", "-v", "-count=1", "-vet=off", "-overlay", ovFile, "-run", "^TestVerifReplay$", "-timeout", "60s", target)
	if rc.Kind == "data-race" {
		cmd = exec.Command("go", "test", "-race", "-v", "-count=1", "-vet=off", "-overlay", ovFile, "-run", "^TestVerifReplay$", "-timeout", "120s", target)
	}
	cmd.Dir = repoDir
	cmd.Env = append(os.Environ(), "GOFLAGS=-mod=mod", "GOPROXY=off", "GOSUMDB=off", "GOTOOLCHAIN=local")
	out, _ := cmd.CombinedOutput()
	res := "NORESULT"
	for _, l := range strings.Split(string(out), "\n") {
		if strings.HasPrefix(l, "VERIF-REPLAY-RESULT ") {
			res = strings.TrimPrefix(l, "VERIF-REPLAY-RESULT ")
		}
	}
	if res == "NORESULT" && strings.Contains(string(out), "panic:") {
		res = "PANIC: (test binary crashed)"
	}
	if rc.Kind == "data-race" {
		// one entry per race report: the functions named in it
		var reps []string
		for _, blk := range strings.Split(string(out), "WARNING: DATA RACE")[1:] {
			if i := strings.Index(blk, "=================="); i >= 0 {
				blk = blk[:i]
			}
			reps = append(reps, blk)
		}
		want := strings.Split(strings.TrimPrefix(rc.Expect, "RACE:"), ",")
		for _, blk := range reps {
			all := true
			for _, fn := range want {
				if !strings.Contains(blk, "."+fn+"(") && !strings.Contains(blk, "."+fn+".") {
					all = false
				}
			}
			if all {
				return "RACE:" + strings.Join(want, ","), string(out), nil
			}
		}
		if len(reps) > 0 {
			res = fmt.Sprintf("OTHER-RACES(%d) %s", len(reps), res)
		}
	}
	return res, string(out), nil
}

func harnessOverlayPaths(harnessDir string) (map[string]string, error) {
	ov := map[string]string{}
	err := filepath.Walk(harnessDir, func(p string, info os.FileInfo, err error) error {
		if err != nil {
			return nil
		}
		if info.IsDir() || !strings.HasSuffix(p, ".go") {
			return nil
		}
		rel, _ := filepath.Rel(harnessDir, p)
		dir := filepath.Dir(rel)
		if dir == "shared" {
			return nil
		}
		if strings.HasPrefix(dir, "root") {
			dir = strings.TrimPrefix(strings.TrimPrefix(dir, "root"), "/")
		}
		ov[filepath.Join(repoDir, dir, "zz_verif_"+filepath.Base(p))] = p
		return nil
	})
	return ov, err
}

func replayMatches(expect, got string) bool {
	switch {
	case expect == "PANIC":
		return strings.HasPrefix(got, "PANIC")
	case expect == "HANG":
		return got == "HANG"
	case strings.HasPrefix(expect, "RACE:"):
		return got == expect
	case strings.HasPrefix(expect, "ASSERT:"):
		id := strings.TrimPrefix(expect, "ASSERT:")
		if i := strings.Index(got, "ASSERT:"); i >= 0 {
			return strings.Contains(got[i:], id)
		}
		return false
	}
	return false
}

func cmdReplay(args []string) int {
	if len(args) < 1 {
		fmt.Fprintln(os.Stderr, "replay <path to case.json>")
		return 2
	}
	if err := writeGenerated(filepath.Join(verifDir, ".gen")); err != nil {
		fmt.Fprintln(os.Stderr, err)
		return 2
	}
	got, out, err := runReplay(args[0])
	if err != nil {
		fmt.Fprintln(os.Stderr, err)
		return 2
	}
	b, _ := os.ReadFile(args[0])
	var rc replayCase
	json.Unmarshal(b, &rc)
	fmt.Printf("expected %s, observed %s\n", rc.Expect, got)
	if os.Getenv("GSE_VERBOSE") != "" {
		fmt.Println(out)
	}
	if replayMatches(rc.Expect, got) {
		fmt.Printf("VIOLATION property=%s replay=%s\n", rc.Prop, args[0])
		return 1
	}
	return 0
}

// ---------------------------------------------------------------- check

type evidence struct {
	PropertyID  string                 `json:"property_id"`
	Tier        string                 `json:"tier"`
	Seed        int                    `json:"seed"`
	Level       string                 `json:"level"`
	Coverage    map[string]interface{} `json:"coverage"`
	Assumptions []string               `json:"assumptions"`
	WallS       float64                `json:"wall_s"`
	Violations  int                    `json:"violations"`
}

func repoHash() string {
	h := sha256.New()
	filepath.Walk(repoDir, func(p string, info os.FileInfo, err error) error {
		if err != nil || info.IsDir() {
			if info != nil && info.IsDir() && (info.Name() == ".git" || info.Name() == "examples") {
				return filepath.SkipDir
			}
			return nil
		}
		if strings.HasSuffix(p, ".go") && !strings.HasSuffix(p, "_test.go") {
			b, _ := os.ReadFile(p)
			h.Write([]byte(p))
			h.Write(b)
		}
		return nil
	})
	return fmt.Sprintf("%x", h.Sum(nil))[:16]
}

func cmdCheck(args []string) int {
	fs := flag.NewFlagSet("check", flag.ExitOnError)
	tier := fs.String("tier", "", "quick|thorough")
	workers := fs.Int("j", 0, "workers")
	var id string
	if len(args) > 0 && !strings.HasPrefix(args[0], "-") {
		id = args[0]
		args = args[1:]
	}
	fs.Parse(args)
	if id == "" && fs.NArg() > 0 {
		id = fs.Arg(0)
	}
	if *tier == "" {
		*tier = os.Getenv("VERIF_TIER")
	}
	if *tier == "" {
		*tier = "quick"
	}
	p := props[id]
	if p == nil {
		fmt.Fprintf(os.Stderr, "unknown property %q (have %v)\n", id, propIDs())
		return 2
	}
	seed, _ := strconv.Atoi(os.Getenv("VERIF_SEED"))
	if *workers == 0 {
		*workers = runtime.NumCPU()
		if *workers > 16 {
			*workers = 16
		}
	}
	t0 := time.Now()
	ld, err := Load(filepath.Join(verifDir, "harness"))
	if err != nil {
		fmt.Fprintln(os.Stderr, "load:", err)
		return 2
	}
	loadS := time.Since(t0).Seconds()
	jobs := p.Jobs(*tier)
	results := runJobs(ld, jobs, *workers)

	known := loadKnown()
	isKnown := func(key string) *knownFinding {
		for i := range known {
			if known[i].status == "known" && known[i].prop == id && normKey(known[i].key) == normKey(key) {
				return &known[i]
			}
		}
		return nil
	}
	// aggregate
	var paths, dead, oblig, disch, decisions, queries int
	var solverT time.Duration
	perSolver := map[string]float64{}
	funcs := map[string]bool{}
	stubs := map[string]int{}
	var inconc []string
	var errs []string
	var samples []interface{}
	reach := map[string]int{}
	findings := map[string]Finding{}
	var order []string
	for _, r := range results {
		paths += r.Paths
		dead += r.Dead
		oblig += r.Oblig
		disch += r.Disch
		decisions += r.Decisions
		queries += r.Stats.Queries
		solverT += r.Stats.Time
		for k, v := range r.Stats.PerSolver {
			perSolver[k] += v.Seconds()
		}
		for _, f := range r.Funcs {
			funcs[f] = true
		}
		for k, v := range r.Stubs {
			stubs[k] += v
		}
		inconc = append(inconc, r.Inconc...)
		if r.Err != "" {
			errs = append(errs, r.Job.Name()+": "+r.Err)
		}
		for _, s := range r.Samples {
			if len(samples) < 6 {
				s["harness"] = r.Job.Name()
				samples = append(samples, s)
			}
		}
		for k, v := range r.Reach {
			reach[r.Job.Func+":"+k] += v
		}
		for _, f := range r.Findings {
			if p.Filter != nil && !f.Job.Twin && !p.Filter(f) {
				continue
			}
			if _, ok := findings[f.Key]; !ok {
				findings[f.Key] = f
				order = append(order, f.Key)
			}
		}
	}
	sort.Strings(order)
	// vacuity guards
	var vacuity []string
	for _, j := range jobs {
		for _, m := range j.Reach {
			if reach[j.Func+":"+m] == 0 {
				vacuity = append(vacuity, fmt.Sprintf("%s never reached marker %q", j.Func, m))
			}
		}
	}
	violations := 0
	knownHits := 0
	replayed := 0
	unconfirmed := 0
	var vioLines []string
	var findingList []map[string]string
	caseN := 0
	os.RemoveAll(filepath.Join(verifDir, "replay", id))
	for _, key := range order {
		f := findings[key]
		if f.Job.Twin {
			continue
		}
		entry := map[string]string{"key": key, "kind": f.Kind, "func": f.Func, "at": f.Pos, "harness": f.Harness}
		if kf := isKnown(key); kf != nil {
			knownHits++
			fmt.Printf("KNOWN-FINDING: property=%s %s [%s]\n", id, kf.text, key)
			entry["status"] = "known"
			findingList = append(findingList, entry)
			continue
		}
		rc := buildReplayCase(id, f)
		if rc == nil {
			unconfirmed++
			entry["status"] = "unconfirmed (no model)"
			findingList = append(findingList, entry)
			fmt.Printf("UNCONFIRMED: property=%s %s\n", id, key)
			continue
		}
		caseN++
		path, err := writeReplay(rc, caseN)
		if err != nil {
			fmt.Fprintln(os.Stderr, err)
			continue
		}
		got, _, err := runReplay(path)
		replayed++
		if err == nil && !replayMatches(rc.Expect, got) && f.Kind == "reslice-beyond-length" {
			// the function adapts to the capacity instead of panicking: confirm through the harness's own
			// inside-the-view assertion with the original capacity
			rc.Clamp, rc.Expect = false, "ASSERT::inside"
			path, _ = writeReplay(rc, caseN)
			got, _, err = runReplay(path)
		}
		if err == nil && replayMatches(rc.Expect, got) {
			violations++
			entry["status"] = "violation (replayed natively: " + got + ")"
			vioLines = append(vioLines, fmt.Sprintf("VIOLATION property=%s replay=%s", id, path))
			fmt.Printf("VIOLATION property=%s replay=%s\n", id, path)
			fmt.Printf("  finding: %s\n  native outcome: %s\n", key, got)
			if os.Getenv("GSE_EMIT_KNOWN") != "" {
				fmt.Printf("SUGGEST known: property=%s key=%s :: %s in %s (%s); native: %s\n", id, key, f.Kind, strings.ReplaceAll(f.Func, modPath, "packet"), f.Pos, got)
			}
		} else {
			unconfirmed++
			entry["status"] = "unconfirmed (expected " + rc.Expect + ", native run gave " + got + ")"
			fmt.Printf("UNCONFIRMED: property=%s %s (expected %s, native %s) replay=%s\n", id, key, rc.Expect, got, path)
		}
		findingList = append(findingList, entry)
	}
	// twins: every twin job must have produced its "twin" violation
	twinsOK, twins := 0, 0
	for _, r := range results {
		if r.Job.Twin {
			twins++
			for _, f := range r.Findings {
				if f.Kind == "assert" && strings.HasPrefix(f.Expr, "twin") {
					twinsOK++
					break
				}
			}
		}
	}
	if twins != twinsOK {
		vacuity = append(vacuity, fmt.Sprintf("%d of %d reachability twins did not reach their final assertion", twins-twinsOK, twins))
	}
	inconcSet := map[string]int{}
	for _, s := range inconc {
		inconcSet[s]++
	}
	var inconcList []string
	for s, n := range inconcSet {
		inconcList = append(inconcList, fmt.Sprintf("x%d %s", n, s))
	}
	sort.Strings(inconcList)
	for _, s := range inconcList {
		fmt.Printf("INCONCLUSIVE: %s\n", s)
	}
	for _, s := range errs {
		fmt.Printf("ENGINE-ERROR: %s\n", s)
	}
	for _, s := range vacuity {
		fmt.Printf("VACUITY: %s\n", s)
	}
	var fl []string
	for f := range funcs {
		if strings.Contains(f, modPath) && !strings.Contains(f, ".Verif") && !strings.Contains(f, ".verif") {
			fl = append(fl, strings.ReplaceAll(f, modPath, "packet"))
		}
	}
	sort.Strings(fl)
	var stubList []string
	for k, v := range stubs {
		stubList = append(stubList, fmt.Sprintf("%s x%d", k, v))
	}
	sort.Strings(stubList)
	var jobNames []string
	for _, r := range results {
		jobNames = append(jobNames, fmt.Sprintf("%s: paths=%d dead=%d obligations=%d/%d queries=%d wall=%.1fs", r.Job.Name(), r.Paths, r.Dead, r.Disch, r.Oblig, r.Stats.Queries, r.Wall))
	}
	if len(samples) == 0 {
		samples = append(samples, map[string]interface{}{"note": "no symbolic-input path sample recorded", "jobs": len(results)})
	}
	wall := time.Since(t0).Seconds()
	ev := evidence{PropertyID: id, Tier: *tier, Seed: seed, Level: "model_checking", WallS: wall, Violations: violations}
	ev.Assumptions = append([]string{}, p.Assumptions...)
	for _, o := range p.Outside {
		ev.Assumptions = append(ev.Assumptions, "outside the claim: "+o)
	}
	ev.Coverage = map[string]interface{}{
		"states":                        paths + dead,
		"transitions":                   decisions + 1,
		"traces_validated_against_impl": replayed,
		"samples":                       samples,
		"paths_completed":               paths,
		"paths_abandoned":               dead,
		"obligations":                   oblig,
		"discharged":                    disch,
		"undischarged_inconclusive":     inconcList,
		"engine_errors":                 errs,
		"vacuity_guard_failures":        vacuity,
		"solver_queries":                queries,
		"solver_time_s":                 solverT.Seconds(),
		"solver_time_by_backend_s":      perSolver,
		"functions_encoded":             fl,
		"functions_encoded_count":       len(funcs),
		"stubs_and_intrinsics_hit":      stubList,
		"bounds":                        p.Bounds(*tier),
		"jobs":                          jobNames,
		"findings":                      findingList,
		"known_findings_matched":        knownHits,
		"counterexamples_unconfirmed":   unconfirmed,
		"reachability_twins":            fmt.Sprintf("%d/%d violated as required", twinsOK, twins),
		"reach_markers":                 reach,
		"repo_source_hash":              repoHash(),
		"load_and_ssa_build_s":          loadS,
		"technique":                     p.Technique,
		"explanation":                   "bounded symbolic execution of the real go/ssa of /repo; every branch, panic condition, assertion and loop-state repetition is an SMT query (z3/cvc5); 'states' = explored paths, 'transitions' = solver-decided branch decisions",
	}
	evDir := filepath.Join(verifDir, "evidence")
	if d := os.Getenv("GSE_EVIDENCE_DIR"); d != "" { // mutation experiments must not overwrite the committed evidence
		evDir = d
	}
	os.MkdirAll(evDir, 0o755)
	b, _ := json.MarshalIndent(ev, "", " ")
	if err := os.WriteFile(filepath.Join(evDir, id+".json"), b, 0o644); err != nil {
		fmt.Fprintln(os.Stderr, err)
	}
	fmt.Printf("%s tier=%s: %d jobs, %d paths, %d/%d obligations discharged, %d known findings, %d violations, %d unconfirmed, %d inconclusive, %.1fs\n",
		id, *tier, len(results), paths, disch, oblig, knownHits, violations, unconfirmed, len(inconcList)+len(errs), wall)
	if violations > 0 {
		return 1
	}
	return 0
}

// cmdSelftest: native validation of the harness reference renderers/decoders against the standard library
// (go test with the harness files overlaid), and a smoke run of the engine on one harness.
func cmdSelftest(args []string) int {
	if err := writeGenerated(filepath.Join(verifDir, ".gen")); err != nil {
		fmt.Fprintln(os.Stderr, err)
		return 2
	}
	ov := map[string]string{}
	for _, hd := range []string{filepath.Join(verifDir, "harness"), filepath.Join(verifDir, ".gen")} {
		m, _ := harnessOverlayPaths(hd)
		for virt, real := range m {
			ov[virt] = real
		}
	}
	tests, _ := filepath.Glob(filepath.Join(verifDir, "selftest", "*_test.go"))
	pkgs := map[string]bool{}
	for _, t := range tests {
		base := filepath.Base(t)
		dir := ""
		switch {
		case strings.HasPrefix(base, "fastlog_"):
			dir = "fastlog"
		}
		ov[filepath.Join(repoDir, dir, "zz_verif_self_"+base)] = t
		if dir == "" {
			pkgs["."] = true
		} else {
			pkgs["./"+dir] = true
		}
	}
	tmp, _ := os.MkdirTemp("", "gse-selftest")
	defer os.RemoveAll(tmp)
	ovb, _ := json.Marshal(map[string]interface{}{"Replace": ov})
	ovFile := filepath.Join(tmp, "overlay.json")
	os.WriteFile(ovFile, ovb, 0o644)
	rc := 0
	for p := range pkgs {
		cmd := exec.Command("go", "test", "-count=1", "-vet=off", "-overlay", ovFile, "-run", "^TestVerifRef", p)
		cmd.Dir = repoDir
		cmd.Env = append(os.Environ(), "GOFLAGS=-mod=mod", "GOPROXY=off", "GOSUMDB=off", "GOTOOLCHAIN=local")
		out, err := cmd.CombinedOutput()
		fmt.Print(string(out))
		if err != nil {
			rc = 1
		}
	}
	// engine smoke test
	ld, err := Load(filepath.Join(verifDir, "harness"))
	if err != nil {
		fmt.Fprintln(os.Stderr, "load:", err)
		return 2
	}
	r := runJob(ld, Job{Pkg: "root", Func: "VerifC15Base", Cfg: cfg(64, 60)})
	if r.Err != "" || r.Paths != 1 || len(r.Findings) != 0 {
		fmt.Println("engine smoke test failed:", r.Err, r.Paths, len(r.Findings))
		rc = 1
	} else {
		fmt.Println("engine smoke test ok")
	}
	return rc
}


// normKey makes a finding key insensitive to edits of trailing comments on the source line it quotes: every
// '|'-separated component is cut at the first "//" that is outside a string / rune literal.
func normKey(k string) string {
	parts := strings.Split(k, "|")
	for i, p := range parts {
		parts[i] = strings.TrimSpace(stripLineComment(p))
	}
	return strings.Join(parts, "|")
}

func stripLineComment(l string) string {
	var q byte
	for i := 0; i < len(l); i++ {
		c := l[i]
		switch {
		case q != 0:
			if c == '\\' && q != '`' {
				i++
			} else if c == q {
				q = 0
			}
		case c == '"' || c == '\'' || c == '`':
			q = c
		case c == '/' && i+1 < len(l) && l[i+1] == '/':
			return l[:i]
		}
	}
	return l
}
