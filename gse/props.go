package main

func propIDs() []string { return nil }
func cmdCheck(args []string) int    { return 2 }
func cmdReplay(args []string) int   { return 2 }
func cmdSelftest(args []string) int { return 2 }
