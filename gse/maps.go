package main

import (
	"go/token"
	"go/types"
	"unicode/utf8"

	"golang.org/x/tools/go/ssa"
)

// ---------------------------------------------------------------- maps

// mapFind returns the index of the entry whose key equals key on this path
// (forking by re-execution on symbolic keys), or -1.
func (e *Engine) mapFind(st *State, id int, key Val) int {
	o := st.obj(id)
	for i := range o.ents {
		c := e.eq(o.ents[i].K, key)
		if e.decide(st, c) {
			return i
		}
	}
	return -1
}

func (e *Engine) lookup(st *State, fr *Frame, x *ssa.Lookup) Val {
	tb := e.tb
	switch m := e.get(st, fr, x.X).(type) {
	case StrV:
		return e.strIndex(st, m, e.toIndex(e.get(st, fr, x.Index), x.Index.Type()), x.Pos())
	case MapV:
		et := x.X.Type().Underlying().(*types.Map).Elem()
		key := e.get(st, fr, x.Index)
		found := -1
		if m.Obj != 0 {
			e.access(st, PtrV{Obj: m.Obj}, false)
			found = e.mapFind(st, m.Obj, key)
		}
		var v Val
		if found >= 0 {
			v = st.obj(m.Obj).ents[found].V
		} else {
			v = e.zero(st, et)
		}
		if x.CommaOk {
			return TupleV{v, BoolV{tb.Bool(found >= 0)}}
		}
		return v
	}
	panic(engineErr("lookup on %T", e.get(st, fr, x.X)))
}

func (e *Engine) mapUpdate(st *State, id int, key, val Val) {
	i := e.mapFind(st, id, key)
	e.access(st, PtrV{Obj: id}, true)
	o := st.mut(id)
	ne := append([]mapEntry{}, o.ents...)
	if i >= 0 {
		ne[i].V = val
	} else {
		ne = append(ne, mapEntry{key, val})
	}
	o.ents = ne
}

func (e *Engine) mapDelete(st *State, id int, key Val) {
	i := e.mapFind(st, id, key)
	e.access(st, PtrV{Obj: id}, true)
	if i < 0 {
		return
	}
	o := st.mut(id)
	ne := append([]mapEntry{}, o.ents[:i]...)
	ne = append(ne, o.ents[i+1:]...)
	o.ents = ne
}

// ---------------------------------------------------------------- range

// Iterator object: StructV{pos IntV, keys ArrV, src Val}
func (e *Engine) rangeInit(st *State, x Val) Val {
	tb := e.tb
	switch v := x.(type) {
	case MapV:
		var keys []Val
		if v.Obj != 0 {
			e.access(st, PtrV{Obj: v.Obj}, false)
			ents := st.obj(v.Obj).ents
			order := make([]int, len(ents))
			for i := range order {
				order[i] = i
			}
			if e.cfg.PermuteMaps && len(ents) >= 2 && len(ents) <= 3 {
				// Go's iteration order is unspecified: fork over all permutations
				nperm := 2
				if len(ents) == 3 {
					nperm = 6
				}
				k := e.choose(st, nperm, "maporder")
				order = permutation(len(ents), k)
			}
			for _, i := range order {
				keys = append(keys, ents[i].K)
			}
		}
		o := st.newVal(e, StructV{[]Val{IntV{tb.BV(0, 64)}, ArrV{keys}, v}}, "range")
		return PtrV{Obj: o.id}
	case StrV:
		o := st.newVal(e, StructV{[]Val{IntV{tb.BV(0, 64)}, ArrV{}, v}}, "range")
		return PtrV{Obj: o.id}
	}
	panic(engineErr("range over %T", x))
}

func permutation(n, k int) []int {
	items := make([]int, n)
	for i := range items {
		items[i] = i
	}
	var out []int
	for i := n; i > 0; i-- {
		f := 1
		for j := 2; j < i; j++ {
			f *= j
		}
		idx := k / f
		k = k % f
		out = append(out, items[idx])
		items = append(items[:idx], items[idx+1:]...)
	}
	return out
}

func (e *Engine) rangeNext(st *State, it PtrV, x *ssa.Next) Val {
	tb := e.tb
	o := st.obj(it.Obj)
	sv := o.v.(StructV)
	pos := int(sv.F[0].(IntV).T.C)
	tt := x.Type().(*types.Tuple)
	if x.IsString {
		s := sv.F[2].(StrV)
		if pos >= strLen(s) {
			return TupleV{BoolV{tb.ff}, IntV{tb.BV(0, 64)}, IntV{tb.BV(0, 32)}}
		}
		if s.Conc {
			r, size := utf8.DecodeRuneInString(s.S[pos:])
			m := st.mut(it.Obj)
			m.v = StructV{[]Val{IntV{tb.BV(uint64(pos+size), 64)}, sv.F[1], sv.F[2]}}
			return TupleV{BoolV{tb.tt}, IntV{tb.BV(uint64(pos), 64)}, IntV{tb.BV(uint64(r), 32)}}
		}
		// symbolic strings: UTF-8 decoding decided by the solver on the lead/continuation byte classes
		r, size := e.decodeRune(st, s.B[pos:])
		m := st.mut(it.Obj)
		m.v = StructV{[]Val{IntV{tb.BV(uint64(pos+size), 64)}, sv.F[1], sv.F[2]}}
		return TupleV{BoolV{tb.tt}, IntV{tb.BV(uint64(pos), 64)}, IntV{r}}
	}
	keys := sv.F[1].(ArrV).E
	mv := sv.F[2].(MapV)
	zeroOrNil := func(t types.Type) Val {
		if b, ok := t.(*types.Basic); ok && b.Kind() == types.Invalid {
			return nil // component not used by the loop
		}
		return e.zero(st, t)
	}
	kz := zeroOrNil(tt.At(1).Type())
	vz := zeroOrNil(tt.At(2).Type())
	for pos < len(keys) {
		k := keys[pos]
		pos++
		// skip entries deleted since the iteration started (syntactic identity of the key)
		ents := st.obj(mv.Obj).ents
		for i := range ents {
			if e.eqLoose(ents[i].K, k).IsTrue() {
				m := st.mut(it.Obj)
				m.v = StructV{[]Val{IntV{tb.BV(uint64(pos), 64)}, sv.F[1], sv.F[2]}}
				return TupleV{BoolV{tb.tt}, k, ents[i].V}
			}
		}
	}
	m := st.mut(it.Obj)
	m.v = StructV{[]Val{IntV{tb.BV(uint64(pos), 64)}, sv.F[1], sv.F[2]}}
	return TupleV{BoolV{tb.ff}, kz, vz}
}

// choose returns a value in [0,n) ; all values are explored (fork by re-execution).
func (e *Engine) choose(st *State, n int, what string) int {
	if n <= 1 {
		return 0
	}
	v := e.tb.Var(stName("choice", what, st.steps)+"_"+itoa(st.choiceSeq), 8)
	st.addPC(e.tb.Cmp("bvult", v, e.tb.BV(uint64(n), 8)))
	r := n - 1
	for i := 0; i < n-1; i++ {
		if e.decide(st, e.tb.Cmp("=", v, e.tb.BV(uint64(i), 8))) {
			r = i
			break
		}
	}
	st.choiceSeq++
	return r
}

func stName(prefix, what string, step int) string {
	return prefix + "_" + what + "_" + itoa(step)
}

func itoa(i int) string {
	if i == 0 {
		return "0"
	}
	neg := i < 0
	if neg {
		i = -i
	}
	var b [24]byte
	p := len(b)
	for i > 0 {
		p--
		b[p] = byte('0' + i%10)
		i /= 10
	}
	if neg {
		p--
		b[p] = '-'
	}
	return string(b[p:])
}

// ---------------------------------------------------------------- channels (sequential semantics; thread mode overrides in threads.go)

func (e *Engine) chanSend(st *State, th *Thread, c ChanV, v Val, pos token.Pos) {
	if e.threadMode {
		e.offer(st, th)
		w := waitCh{c.Obj, true}
		if !e.chanReady(st, w) {
			th.waitMode, th.waitChans = 4, []waitCh{w}
			e.threadBlock(st, th, "chan send")
		}
		th.atSwitch = false
		e.chanSync(st, th, c.Obj, true)
	}
	if c.Obj == 0 {
		e.blocked(st, th, "send on nil channel", pos)
		return
	}
	o := st.obj(c.Obj)
	e.oblige(st, e.tb.Bool(!o.closed), "send-on-closed-channel", pos, "")
	if len(o.q) < o.qcap {
		m := st.mut(c.Obj)
		m.q = append(append([]Val{}, o.q...), v)
		return
	}
	if e.threadMode {
		e.threadBlock(st, th, "send")
		return
	}
	e.blocked(st, th, "send on full/unbuffered channel", pos)
}

func (e *Engine) chanRecv(st *State, th *Thread, c ChanV, commaOk bool, t types.Type, pos token.Pos) Val {
	mk := func(v Val, ok bool) Val {
		if commaOk {
			return TupleV{v, BoolV{e.tb.Bool(ok)}}
		}
		return v
	}
	et := t
	if commaOk {
		et = t.(*types.Tuple).At(0).Type()
	}
	if e.threadMode {
		e.offer(st, th)
		w := waitCh{c.Obj, false}
		if !e.chanReady(st, w) {
			th.waitMode, th.waitChans = 4, []waitCh{w}
			e.threadBlock(st, th, "chan receive")
		}
		th.atSwitch = false
		e.chanSync(st, th, c.Obj, false)
		if o := st.obj(c.Obj); o.timer && len(o.q) == 0 && !o.closed {
			e.tm(st).ticks--
		}
	}
	if c.Obj == 0 {
		e.blocked(st, th, "receive from nil channel", pos)
		return nil
	}
	o := st.obj(c.Obj)
	if len(o.q) > 0 {
		m := st.mut(c.Obj)
		v := o.q[0]
		m.q = append([]Val{}, o.q[1:]...)
		return mk(v, true)
	}
	if o.closed {
		return mk(e.zero(st, et), false)
	}
	if o.timer {
		return mk(e.zero(st, et), true)
	}
	if e.threadMode {
		e.threadBlock(st, th, "recv")
		return nil
	}
	e.blocked(st, th, "receive from empty channel", pos)
	return nil
}

func (e *Engine) chanClose(st *State, c ChanV) {
	if e.threadMode {
		e.chanSync(st, st.threads[st.cur], c.Obj, true)
	}
	m := st.mut(c.Obj)
	m.closed = true
}

// blocked: in sequential mode an operation that can never proceed is a finding.
func (e *Engine) blocked(st *State, th *Thread, what string, pos token.Pos) {
	e.oblige(st, e.tb.ff, "blocks-forever", pos, what)
}

// selectStmt (sequential semantics): ready cases are explored exhaustively; with no ready case the
// default is taken, or the statement blocks forever.
func (e *Engine) selectStmt(st *State, th *Thread, fr *Frame, x *ssa.Select) Val {
	tb := e.tb
	type cs struct {
		idx   int
		ready bool
	}
	var ready []int
	if e.threadMode {
		e.offer(st, th)
	}
	var waits []waitCh
	var timers, others []int // thread mode: ready timer arms / arms on ordinary channels
	for i, s := range x.States {
		c := e.get(st, fr, s.Chan).(ChanV)
		if c.Obj == 0 {
			continue
		}
		o := st.obj(c.Obj)
		if e.threadMode && o.timer && s.Dir != types.SendOnly && len(o.q) == 0 && !o.closed {
			if e.tm(st).ticks > 0 {
				timers = append(timers, i)
			}
			continue
		}
		others = append(others, i)
		waits = append(waits, waitCh{c.Obj, s.Dir == types.SendOnly})
		if s.Dir == types.SendOnly {
			if len(o.q) < o.qcap && !o.closed {
				ready = append(ready, i)
			}
		} else {
			if len(o.q) > 0 || o.closed || o.timer {
				ready = append(ready, i)
			}
		}
	}
	if e.threadMode && len(timers) > 0 {
		switch {
		case th.timerDue: // nothing else can happen any more: the timer fires
			ready = timers
			th.timerDue, th.waitTimer = false, false
		case len(ready) > 0: // an ordinary arm is ready: it or a timer
			ready = append(ready, timers...)
		case len(others) == 0 || !x.Blocking:
			ready = timers
		default:
			// only timers are ready: the timer fires now, or the thread waits for the other arms (the timer stays
			// pending and fires if nothing else can run any more)
			if e.choose(st, 2, "timer") == 0 {
				ready = timers
			} else {
				th.waitMode, th.waitChans, th.waitTimer = 4, waits, true
				e.threadBlock(st, th, "select")
				return nil
			}
		}
	}
	// result tuple: (index int, recvOk bool, recv_0, ..., recv_n-1)
	tt := x.Type().(*types.Tuple)
	res := make(TupleV, tt.Len())
	for i := 0; i < tt.Len(); i++ {
		res[i] = e.zero(st, tt.At(i).Type())
	}
	if len(ready) == 0 {
		if !x.Blocking {
			res[0] = IntV{tb.BV(^uint64(0), 64)}
			return res
		}
		if e.threadMode {
			th.waitMode, th.waitChans = 4, waits
			e.threadBlock(st, th, "select")
			return nil
		}
		e.blocked(st, th, "select with no ready case", x.Pos())
		return nil
	}
	k := ready[e.choose(st, len(ready), "select")]
	s := x.States[k]
	c := e.get(st, fr, s.Chan).(ChanV)
	if e.threadMode {
		th.atSwitch = false
		e.chanSync(st, th, c.Obj, s.Dir == types.SendOnly)
		if o := st.obj(c.Obj); s.Dir != types.SendOnly && o.timer && len(o.q) == 0 && !o.closed {
			e.tm(st).ticks--
		}
	}
	res[0] = IntV{tb.BV(uint64(k), 64)}
	if s.Dir == types.SendOnly {
		o := st.obj(c.Obj)
		m := st.mut(c.Obj)
		m.q = append(append([]Val{}, o.q...), e.get(st, fr, s.Send))
		return res
	}
	// receive: position of the received value in the tuple
	ri := 2
	for i := 0; i < k; i++ {
		if x.States[i].Dir == types.RecvOnly {
			ri++
		}
	}
	o := st.obj(c.Obj)
	switch {
	case len(o.q) > 0:
		m := st.mut(c.Obj)
		res[ri] = o.q[0]
		m.q = append([]Val{}, o.q[1:]...)
		res[1] = BoolV{tb.tt}
	case o.closed:
		res[1] = BoolV{tb.ff}
	default: // timer
		res[1] = BoolV{tb.tt}
	}
	return res
}

func (e *Engine) strIndex(st *State, m StrV, idx *Term, pos token.Pos) Val {
	tb := e.tb
	n := strLen(m)
	e.oblige(st, tb.Cmp("bvult", idx, tb.BV(uint64(n), 64)), "index-out-of-range", pos, "string index")
	if m.Conc && idx.IsConst() {
		return IntV{tb.BV(uint64(m.S[idx.C]), 8)}
	}
	bs := e.strBytes(m)
	if idx.IsConst() {
		return IntV{bs[idx.C]}
	}
	if len(bs) > 64 {
		c := e.concretize(st, idx)
		return IntV{bs[c]}
	}
	r := bs[len(bs)-1]
	for i := len(bs) - 2; i >= 0; i-- {
		r = tb.Ite(tb.Cmp("=", idx, tb.BV(uint64(i), 64)), bs[i], r)
	}
	return IntV{r}
}

// decodeRune mirrors utf8.DecodeRune on symbolic bytes (forking on the byte classes).
func (e *Engine) decodeRune(st *State, b []*Term) (*Term, int) {
	tb := e.tb
	in := func(x *Term, lo, hi uint64) *Term {
		return tb.And(tb.Cmp("bvule", tb.BV(lo, 8), x), tb.Cmp("bvule", x, tb.BV(hi, 8)))
	}
	bad := tb.BV(0xFFFD, 32)
	b0 := b[0]
	if e.decide(st, tb.Cmp("bvult", b0, tb.BV(0x80, 8))) {
		return tb.ZExt(b0, 32), 1
	}
	z := func(x *Term, m uint64) *Term { return tb.ZExt(tb.Bin("bvand", x, tb.BV(m, 8)), 32) }
	sh := func(x *Term, n uint64) *Term { return tb.Bin("bvshl", x, tb.BV(n, 32)) }
	or := func(xs ...*Term) *Term {
		r := xs[0]
		for _, x := range xs[1:] {
			r = tb.Bin("bvor", r, x)
		}
		return r
	}
	if e.decide(st, in(b0, 0xC2, 0xDF)) {
		if len(b) < 2 || !e.decide(st, in(b[1], 0x80, 0xBF)) {
			return bad, 1
		}
		return or(sh(z(b0, 0x1F), 6), z(b[1], 0x3F)), 2
	}
	if e.decide(st, in(b0, 0xE0, 0xEF)) {
		if len(b) < 3 {
			return bad, 1
		}
		lo, hi := uint64(0x80), uint64(0xBF)
		if e.decide(st, tb.Cmp("=", b0, tb.BV(0xE0, 8))) {
			lo = 0xA0
		} else if e.decide(st, tb.Cmp("=", b0, tb.BV(0xED, 8))) {
			hi = 0x9F
		}
		if !e.decide(st, in(b[1], lo, hi)) || !e.decide(st, in(b[2], 0x80, 0xBF)) {
			return bad, 1
		}
		return or(sh(z(b0, 0x0F), 12), sh(z(b[1], 0x3F), 6), z(b[2], 0x3F)), 3
	}
	if e.decide(st, in(b0, 0xF0, 0xF4)) {
		if len(b) < 4 {
			return bad, 1
		}
		lo, hi := uint64(0x80), uint64(0xBF)
		if e.decide(st, tb.Cmp("=", b0, tb.BV(0xF0, 8))) {
			lo = 0x90
		} else if e.decide(st, tb.Cmp("=", b0, tb.BV(0xF4, 8))) {
			hi = 0x8F
		}
		if !e.decide(st, in(b[1], lo, hi)) || !e.decide(st, in(b[2], 0x80, 0xBF)) || !e.decide(st, in(b[3], 0x80, 0xBF)) {
			return bad, 1
		}
		return or(sh(z(b0, 0x07), 18), sh(z(b[1], 0x3F), 12), sh(z(b[2], 0x3F), 6), z(b[3], 0x3F)), 4
	}
	return bad, 1
}
