package main

import (
	"fmt"
	"os"
	"path/filepath"
	"sort"
	"strings"

	"golang.org/x/tools/go/packages"
	"golang.org/x/tools/go/ssa"
	"golang.org/x/tools/go/ssa/ssautil"
)

const repoDir = "/repo"
const modPath = "github.com/irai/packet"

type Loaded struct {
	prog        *ssa.Program
	pkgs        map[string]*ssa.Package
	harnessPkgs map[string]bool
	initRan     map[string]bool
	overlay     map[string][]byte
	srcHash     string
}

// harnessOverlay maps /verif/harness/<dir>/*.go to /repo/<dir>/zz_verif_*.go ("root" = module root).
func harnessOverlay(harnessDir string, native bool) (map[string][]byte, error) {
	ov := map[string][]byte{}
	err := filepath.Walk(harnessDir, func(p string, info os.FileInfo, err error) error {
		if err != nil {
			return err
		}
		if info.IsDir() || !strings.HasSuffix(p, ".go") {
			return nil
		}
		rel, _ := filepath.Rel(harnessDir, p)
		dir := filepath.Dir(rel)
		if dir == "shared" {
			return nil
		}
		if strings.HasPrefix(dir, "root") {
			dir = strings.TrimPrefix(strings.TrimPrefix(dir, "root"), "/")
		}
		b, err := os.ReadFile(p)
		if err != nil {
			return err
		}
		ov[filepath.Join(repoDir, dir, "zz_verif_"+filepath.Base(p))] = b
		return nil
	})
	return ov, err
}

func Load(harnessDir string) (*Loaded, error) {
	ov, err := harnessOverlay(harnessDir, false)
	if err != nil {
		return nil, err
	}
	genDir := filepath.Join(verifDir, ".gen")
	if err := writeGenerated(genDir); err != nil {
		return nil, err
	}
	gov, err := harnessOverlay(genDir, false)
	if err != nil {
		return nil, err
	}
	for k, v := range gov {
		ov[k] = v
	}
	cfg := &packages.Config{Mode: packages.LoadAllSyntax, Dir: repoDir, Overlay: ov,
		Env: append(os.Environ(), "GOFLAGS=-mod=mod", "GOPROXY=off", "GOSUMDB=off", "GOTOOLCHAIN=local")}
	pkgs, err := packages.Load(cfg, ".", "./fastlog", "./handlers/...")
	if err != nil {
		return nil, err
	}
	nerr := 0
	packages.Visit(pkgs, nil, func(p *packages.Package) {
		for _, e := range p.Errors {
			fmt.Fprintln(os.Stderr, "load error:", e)
			nerr++
		}
	})
	if nerr > 0 {
		return nil, fmt.Errorf("%d package load errors", nerr)
	}
	prog, spkgs := ssautil.AllPackages(pkgs, ssa.InstantiateGenerics)
	prog.Build()
	ld := &Loaded{prog: prog, pkgs: map[string]*ssa.Package{}, harnessPkgs: map[string]bool{}, initRan: map[string]bool{}, overlay: ov}
	for _, p := range spkgs {
		if p != nil {
			ld.pkgs[p.Pkg.Path()] = p
			ld.harnessPkgs[p.Pkg.Path()] = true
		}
	}
	for _, p := range prog.AllPackages() {
		if _, ok := ld.pkgs[p.Pkg.Path()]; !ok {
			ld.pkgs[p.Pkg.Path()] = p
		}
	}
	return ld, nil
}

// pkgOfDir maps a harness directory name to the import path.
func pkgPath(dir string) string {
	if dir == "" || dir == "root" {
		return modPath
	}
	return modPath + "/" + dir
}

// ---------------------------------------------------------------- package initialisation

var initAllow = map[string]bool{
	"net/netip": true, "errors": true, "io": true, "encoding/binary": true, "bytes": true, "strings": true,
	"strconv": true, "golang.org/x/net/dns/dnsmessage": true, "net": true, "math": true,
	"unicode/utf8": true, "internal/byteorder": true, "sync": true, "sync/atomic": true, "math/bits": true,
	"gitlab.com/golang-commonmark/puny": true, "sort": true, "internal/itoa": true, 
	"golang.org/x/net/ipv6": true, "golang.org/x/net/ipv4": true, "io/fs": true, "os": false, "context": true,
	"internal/oserror": true, "syscall": false,
}

func (e *Engine) initAllowed(path string) bool {
	if strings.HasPrefix(path, modPath) {
		return true
	}
	return initAllow[path]
}

// RunInit executes the package initialisers of the repository packages (and
// allow-listed dependencies) concretely; the resulting heap becomes the
// frozen root heap shared by all harness runs.
func (e *Engine) RunInit() error {
	st := e.newState()
	th := &Thread{id: 0, name: "init"}
	st.threads = []*Thread{th}
	e.inInit = true
	defer func() { e.inInit = false }()
	var order []string
	for p := range e.ld.pkgs {
		if strings.HasPrefix(p, modPath) && !strings.Contains(p, "/examples") {
			order = append(order, p)
		}
	}
	sort.Strings(order)
	for _, p := range order {
		pkg := e.ld.pkgs[p]
		initFn := pkg.Func("init")
		if initFn == nil {
			continue
		}
		th.done = false
		th.frames = nil
		fr := e.pushFrame(st, th, initFn, nil, nil, nil)
		fr.isInit = true
		if err := e.runInitLoop(st, th); err != nil {
			return fmt.Errorf("init of %s: %v", p, err)
		}
	}
	// freeze
	st.eachLocal(func(id int, o *Object) { e.root[id] = o })
	e.initDone = true
	return nil
}

func (e *Engine) runInitLoop(st *State, th *Thread) (err error) {
	steps := 0
	for !th.done && len(th.frames) > 0 {
		steps++
		if steps > 20000000 {
			return fmt.Errorf("init step budget exhausted")
		}
		if perr := e.initStep(st, th); perr != nil {
			// unwind to the nearest package-init frame and poison the value being computed
			for len(th.frames) > 0 && !th.top().isInit {
				th.frames = th.frames[:len(th.frames)-1]
			}
			if len(th.frames) == 0 {
				return perr
			}
			fr := th.top()
			in := fr.block.Instrs[fr.ip]
			switch in.(type) {
			case *ssa.If, *ssa.Jump, *ssa.Return, *ssa.Panic:
				// cannot continue this initialiser: abandon it
				if os.Getenv("GSE_DEBUG") != "" {
					fmt.Fprintf(os.Stderr, "init: abandoned %s: %v\n", fr.fn.Pkg.Pkg.Path(), perr)
				}
				fr.defers = nil
				e.popFrame(st, th, nil)
				continue
			}
			if v, ok := in.(ssa.Value); ok {
				fr.regs[v] = OpaqueV{fmt.Sprintf("init of %s: %v", fr.fn.Pkg.Pkg.Path(), perr)}
			}
			if os.Getenv("GSE_DEBUG") != "" {
				fmt.Fprintf(os.Stderr, "init: poisoned %s in %s: %v\n", in, fr.fn.Pkg.Pkg.Path(), perr)
			}
			fr.defers = nil
			fr.ip++
		}
	}
	return nil
}

func (e *Engine) initStep(st *State, th *Thread) (err error) {
	defer func() {
		if r := recover(); r != nil {
			switch x := r.(type) {
			case engineError:
				err = x
			case pathDead:
				err = fmt.Errorf("path dead during init: %s", x.why)
			default:
				if os.Getenv("GSE_DEBUG") == "2" {
					fn, fr := e.curFn(st)
					if fr != nil && fr.ip < len(fr.block.Instrs) {
						fmt.Fprintf(os.Stderr, "engine crash during init in %s at %s\n", fn, fr.block.Instrs[fr.ip])
					}
					panic(r)
				}
				err = fmt.Errorf("engine: %v", r)
			}
		}
	}()
	fr := th.top()
	if !fr.entered {
		e.enterBlock(st, fr)
	}
	// calls to other packages' init functions
	if c, ok := fr.block.Instrs[fr.ip].(*ssa.Call); ok {
		if callee := c.Common().StaticCallee(); callee != nil && callee.Name() == "init" && callee.Synthetic != "" && callee.Pkg != nil {
			path := callee.Pkg.Pkg.Path()
			if !e.initAllowed(path) {
				fr.ip++
				return nil
			}
			e.initRan[path] = true
			nf := e.pushFrame(st, th, callee, nil, nil, nil)
			nf.isInit = true
			return nil
		}
	}
	if fr.isInit && fr.fn.Pkg != nil {
		e.initRan[fr.fn.Pkg.Pkg.Path()] = true
	}
	e.step(st, th)
	return nil
}
