package main

// Long-lived SMT solver processes driven over stdin/stdout with an assertion
// stack that mirrors the current path condition (prefix sharing), plus
// one-shot portfolio runs for hard queries. Any "(error" line makes the
// query inconclusive.

import (
	"bufio"
	"bytes"
	"context"
	"fmt"
	"io"
	"os"
	"os/exec"
	"strconv"
	"strings"
	"sync"
	"time"
)

type SolverStats struct {
	Queries   int
	Sat       int
	Unsat     int
	Unknown   int
	Errors    int
	Time      time.Duration
	Restarts  int
	OneShot   int
	PerSolver map[string]time.Duration
}

type Solver struct {
	kind    string // "z3", "z3-new", "cvc5"
	cmd     *exec.Cmd
	in      io.WriteCloser
	out     *bufio.Reader
	pr      *Printer
	stack   []*Term
	Stats   *SolverStats
	timeout int // ms per query
	nq      int
	logf    *os.File
}

func solverArgs(kind string, timeoutMs int) (string, []string) {
	switch kind {
	case "z3":
		return "z3", []string{"-in"}
	case "z3-new":
		return "z3-new", []string{"-in"}
	case "cvc5":
		return "cvc5", []string{"--incremental", "--produce-models", fmt.Sprintf("--tlimit-per=%d", timeoutMs)}
	}
	panic("unknown solver " + kind)
}

func NewSolver(kind string, timeoutMs int, stats *SolverStats) *Solver {
	s := &Solver{kind: kind, timeout: timeoutMs, Stats: stats}
	if stats.PerSolver == nil {
		stats.PerSolver = map[string]time.Duration{}
	}
	s.start()
	return s
}

func (s *Solver) start() {
	bin, args := solverArgs(s.kind, s.timeout)
	c := exec.Command(bin, args...)
	in, _ := c.StdinPipe()
	o, _ := c.StdoutPipe()
	c.Stderr = c.Stdout
	if err := c.Start(); err != nil {
		panic(err)
	}
	s.cmd, s.in, s.out = c, in, bufio.NewReaderSize(o, 1<<16)
	s.pr = NewPrinter()
	s.stack = nil
	s.nq = 0
	hdr := "(set-option :global-declarations true)\n(set-option :produce-models true)\n"
	if s.kind == "cvc5" {
		hdr = "(set-logic ALL)\n" + hdr
	} else {
		hdr += fmt.Sprintf("(set-option :timeout %d)\n", s.timeout)
	}
	s.send(hdr)
}

func (s *Solver) Close() {
	if s.cmd != nil {
		s.in.Close()
		s.cmd.Process.Kill()
		s.cmd.Wait()
		s.cmd = nil
	}
}

func (s *Solver) restart() {
	s.Close()
	s.Stats.Restarts++
	s.start()
}

func (s *Solver) send(txt string) {
	if s.logf != nil {
		s.logf.WriteString(txt)
	}
	if _, err := io.WriteString(s.in, txt); err != nil {
		panic("solver write: " + err.Error())
	}
}

func (s *Solver) readLine() (string, error) {
	l, err := s.out.ReadString('\n')
	if err != nil {
		return "", err
	}
	return strings.TrimSpace(l), nil
}

// readSexp reads a balanced s-expression (possibly spanning lines).
func (s *Solver) readSexp() (string, error) {
	var sb strings.Builder
	depth := 0
	started := false
	for {
		l, err := s.out.ReadString('\n')
		if err != nil {
			return "", err
		}
		sb.WriteString(l)
		for _, ch := range l {
			if ch == '(' {
				depth++
				started = true
			} else if ch == ')' {
				depth--
			}
		}
		if started && depth <= 0 {
			return sb.String(), nil
		}
		if !started && strings.TrimSpace(l) != "" {
			return sb.String(), nil
		}
	}
}

// sync brings the solver's assertion stack to pc.
func (s *Solver) sync(pc []*Term, sb *strings.Builder) {
	l := 0
	for l < len(s.stack) && l < len(pc) && s.stack[l] == pc[l] {
		l++
	}
	if n := len(s.stack) - l; n > 0 {
		fmt.Fprintf(sb, "(pop %d)\n", n)
		s.stack = s.stack[:l]
	}
	for _, t := range pc[l:] {
		txt := s.pr.P(t)
		sb.WriteString(s.pr.Flush())
		fmt.Fprintf(sb, "(push 1)\n(assert %s)\n", txt)
		s.stack = append(s.stack, t)
	}
}

// Check decides sat(pc ∧ extra). want: terms whose values are wanted when sat.
// Result: "sat", "unsat", "unknown" (timeout / error).
func (s *Solver) Check(pc []*Term, extra *Term, want []*Term) (string, []uint64) {
	t0 := time.Now()
	defer func() {
		d := time.Since(t0)
		s.Stats.Time += d
		s.Stats.PerSolver[s.kind] += d
	}()
	s.Stats.Queries++
	s.nq++
	if s.nq > 4000 {
		s.restart()
	}
	for attempt := 0; attempt < 2; attempt++ {
		res, vals, err := s.check1(pc, extra, want)
		if err == nil {
			switch res {
			case "sat":
				s.Stats.Sat++
			case "unsat":
				s.Stats.Unsat++
			default:
				s.Stats.Unknown++
			}
			return res, vals
		}
		s.Stats.Errors++
		if os.Getenv("GSE_DEBUG") != "" {
			fmt.Fprintf(os.Stderr, "solver %s error: %v\n", s.kind, err)
		}
		s.restart()
	}
	s.Stats.Unknown++
	return "unknown", nil
}

func (s *Solver) check1(pc []*Term, extra *Term, want []*Term) (string, []uint64, error) {
	var sb strings.Builder
	s.sync(pc, &sb)
	pushed := false
	if extra != nil && !extra.IsTrue() {
		txt := s.pr.P(extra)
		sb.WriteString(s.pr.Flush())
		fmt.Fprintf(&sb, "(push 1)\n(assert %s)\n", txt)
		pushed = true
	}
	var ws []string
	for _, w := range want {
		ws = append(ws, s.pr.P(w))
	}
	sb.WriteString(s.pr.Flush())
	sb.WriteString("(check-sat)\n")
	s.send(sb.String())
	res, err := s.readLine()
	if err != nil {
		return "", nil, err
	}
	for res == "" || strings.HasPrefix(res, "(warning") || strings.HasPrefix(res, "WARNING") {
		res, err = s.readLine()
		if err != nil {
			return "", nil, err
		}
	}
	if strings.HasPrefix(res, "(error") || (res != "sat" && res != "unsat" && res != "unknown" && res != "timeout") {
		return "", nil, fmt.Errorf("solver said %q", res)
	}
	if res == "timeout" {
		res = "unknown"
	}
	var vals []uint64
	if res == "sat" && len(ws) > 0 {
		vals = make([]uint64, 0, len(ws))
		const chunk = 256
		for i := 0; i < len(ws); i += chunk {
			j := i + chunk
			if j > len(ws) {
				j = len(ws)
			}
			s.send("(get-value (" + strings.Join(ws[i:j], " ") + "))\n")
			txt, err := s.readSexp()
			if err != nil {
				return "", nil, err
			}
			if strings.Contains(txt, "(error") {
				return "", nil, fmt.Errorf("get-value: %s", txt)
			}
			vs, err := parseValues(txt, j-i)
			if err != nil {
				return "", nil, err
			}
			vals = append(vals, vs...)
		}
	}
	if pushed {
		s.send("(pop 1)\n")
	}
	return res, vals, nil
}

// parseValues extracts n values from a get-value answer "((expr val) (expr val) ...)".
func parseValues(txt string, n int) ([]uint64, error) {
	// tokenise into top-level pairs
	txt = strings.TrimSpace(txt)
	if len(txt) < 2 || txt[0] != '(' {
		return nil, fmt.Errorf("bad get-value answer %q", txt)
	}
	body := txt[1 : len(txt)-1]
	var vals []uint64
	i := 0
	for i < len(body) {
		for i < len(body) && (body[i] == ' ' || body[i] == '\n' || body[i] == '\t' || body[i] == '\r') {
			i++
		}
		if i >= len(body) {
			break
		}
		if body[i] != '(' {
			return nil, fmt.Errorf("bad pair in %q", txt)
		}
		// find matching paren
		d := 0
		j := i
		for ; j < len(body); j++ {
			if body[j] == '(' {
				d++
			} else if body[j] == ')' {
				d--
				if d == 0 {
					break
				}
			}
		}
		pair := body[i+1 : j]
		v, err := lastValue(pair)
		if err != nil {
			return nil, err
		}
		vals = append(vals, v)
		i = j + 1
	}
	if len(vals) != n {
		return nil, fmt.Errorf("get-value: wanted %d values, got %d: %q", n, len(vals), txt)
	}
	return vals, nil
}

// lastValue parses the value at the end of "expr value".
func lastValue(pair string) (uint64, error) {
	pair = strings.TrimSpace(pair)
	if strings.HasSuffix(pair, ")") {
		// (_ bvN w)
		k := strings.LastIndex(pair, "(_ bv")
		if k < 0 {
			return 0, fmt.Errorf("bad value %q", pair)
		}
		f := strings.Fields(strings.Trim(pair[k:], "()"))
		v, err := strconv.ParseUint(strings.TrimPrefix(f[1], "bv"), 10, 64)
		return v, err
	}
	k := strings.LastIndexAny(pair, " \n\t")
	tok := pair[k+1:]
	switch {
	case tok == "true":
		return 1, nil
	case tok == "false":
		return 0, nil
	case strings.HasPrefix(tok, "#x"):
		return strconv.ParseUint(tok[2:], 16, 64)
	case strings.HasPrefix(tok, "#b"):
		return strconv.ParseUint(tok[2:], 2, 64)
	}
	return 0, fmt.Errorf("bad value token %q", tok)
}

// ------------------------------------------------------------- one-shot

// scriptBV renders a self-contained BV script for pc ∧ extra.
func scriptBV(pc []*Term, extra *Term, cvc5 bool) string {
	p := NewPrinter()
	var as []string
	for _, t := range pc {
		as = append(as, p.P(t))
	}
	if extra != nil {
		as = append(as, p.P(extra))
	}
	var sb strings.Builder
	if cvc5 {
		sb.WriteString("(set-logic ALL)\n")
	}
	sb.WriteString(p.Flush())
	for _, a := range as {
		fmt.Fprintf(&sb, "(assert %s)\n", a)
	}
	sb.WriteString("(check-sat)\n")
	return sb.String()
}

// scriptInt renders pc ∧ extra over Int; error if some operator is unsupported.
func scriptInt(pc []*Term, extra *Term) (string, error) {
	p := NewIntPrinter()
	var as []string
	for _, t := range pc {
		a, err := p.P(t)
		if err != nil {
			return "", err
		}
		as = append(as, a)
	}
	if extra != nil {
		a, err := p.P(extra)
		if err != nil {
			return "", err
		}
		as = append(as, a)
	}
	return p.Script(as), nil
}

type raceResult struct {
	res    string
	solver string
	dur    time.Duration
}

// Race runs several solver command lines on scripts concurrently; the first
// definitive answer (sat/unsat without any "(error") wins.
func Race(timeout time.Duration, jobs map[string][2]string, stats *SolverStats) (string, string) {
	// jobs: label -> {solver kind, script}
	ctx, cancel := context.WithTimeout(context.Background(), timeout)
	defer cancel()
	ch := make(chan raceResult, len(jobs))
	var wg sync.WaitGroup
	for label, j := range jobs {
		wg.Add(1)
		go func(label, kind, script string) {
			defer wg.Done()
			t0 := time.Now()
			var bin string
			var args []string
			switch kind {
			case "z3", "z3-new":
				bin, args = kind, []string{"-in"}
			case "cvc5":
				bin, args = "cvc5", []string{}
			}
			c := exec.CommandContext(ctx, bin, args...)
			c.Stdin = strings.NewReader(script)
			var out bytes.Buffer
			c.Stdout = &out
			c.Stderr = &out
			c.Run()
			o := out.String()
			res := "unknown"
			if !strings.Contains(o, "(error") {
				f := strings.TrimSpace(o)
				if f == "sat" || f == "unsat" {
					res = f
				}
			}
			ch <- raceResult{res, label, time.Since(t0)}
		}(label, j[0], j[1])
	}
	go func() { wg.Wait(); close(ch) }()
	best, who := "unknown", ""
	for r := range ch {
		if stats != nil {
			if stats.PerSolver == nil {
				stats.PerSolver = map[string]time.Duration{}
			}
			stats.PerSolver["oneshot:"+r.solver] += r.dur
		}
		if r.res != "unknown" && best == "unknown" {
			best, who = r.res, r.solver
			cancel()
		}
	}
	if stats != nil {
		stats.OneShot++
	}
	return best, who
}

// CheckFresh decides sat(pc ∧ extra) in a reset solver context (non-incremental strategy:
// z3 then uses its bit-blasting tactic pipeline, which is much faster on arithmetic-heavy queries).
func (s *Solver) CheckFresh(pc []*Term, extra *Term) string {
	t0 := time.Now()
	defer func() {
		d := time.Since(t0)
		s.Stats.Time += d
		s.Stats.PerSolver[s.kind+"-fresh"] += d
	}()
	s.Stats.Queries++
	script := "(reset)\n"
	if s.kind != "cvc5" {
		script += fmt.Sprintf("(set-option :timeout %d)\n", s.timeout)
	}
	script += scriptBV(pc, extra, s.kind == "cvc5")
	s.send(script)
	s.stack = nil
	s.pr = NewPrinter()
	res, err := s.readLine()
	for err == nil && (res == "" || strings.HasPrefix(res, "(warning")) {
		res, err = s.readLine()
	}
	// restore the incremental context options
	hdr := "(reset)\n(set-option :global-declarations true)\n(set-option :produce-models true)\n"
	if s.kind == "cvc5" {
		hdr = "(reset)\n(set-logic ALL)\n(set-option :global-declarations true)\n(set-option :produce-models true)\n"
	} else {
		hdr += fmt.Sprintf("(set-option :timeout %d)\n", s.timeout)
	}
	if err != nil || strings.HasPrefix(res, "(error") || (res != "sat" && res != "unsat" && res != "unknown" && res != "timeout") {
		s.Stats.Errors++
		s.restart()
		s.Stats.Unknown++
		return "unknown"
	}
	s.send(hdr)
	switch res {
	case "sat":
		s.Stats.Sat++
	case "unsat":
		s.Stats.Unsat++
	default:
		s.Stats.Unknown++
		res = "unknown"
	}
	return res
}
