package main

import (
	"fmt"
	"go/token"
	"reflect"
	"go/types"
	"os"
	"sort"
	"strings"
	"sync"
	"time"

	"golang.org/x/tools/go/ssa"
)

// ---------------------------------------------------------------- frames

type deferred struct {
	fn   FuncV
	args []Val
	// invoke on interface
	method *types.Func
}

type snapshot struct {
	phis []Val
	base map[int]*Object // the state's base map at snapshot time (shared)
	heap map[int]*Object // copy of the delta at snapshot time (nil: not taken)
	sync int             // thread mode: synchronisation operations performed by the thread so far
}

func (s *snapshot) get(id int) *Object {
	if o := s.heap[id]; o != nil {
		return o
	}
	return s.base[id]
}

type Frame struct {
	fn        *ssa.Function
	regs      map[ssa.Value]Val
	block     *ssa.BasicBlock
	ip        int
	prev      *ssa.BasicBlock
	defers    []deferred
	counts    map[*ssa.BasicBlock]int
	snaps     map[*ssa.BasicBlock]*snapshot
	retTo     ssa.Value // register of the caller receiving the result (nil: none)
	noAdvance bool      // deferred call: caller's ip is not advanced on return
	entered   bool      // block entry processing (phis, loop accounting) done for current block
	isInit    bool
	dirtyResult bool // sync.Pool.Get: the returned buffer may hold arbitrary old contents
}

func (f *Frame) clone() *Frame {
	n := *f
	n.regs = make(map[ssa.Value]Val, len(f.regs)+4)
	for k, v := range f.regs {
		n.regs[k] = v
	}
	if f.counts != nil {
		n.counts = make(map[*ssa.BasicBlock]int, len(f.counts))
		for k, v := range f.counts {
			n.counts[k] = v
		}
	}
	if f.snaps != nil {
		n.snaps = make(map[*ssa.BasicBlock]*snapshot, len(f.snaps))
		for k, v := range f.snaps {
			n.snaps[k] = v
		}
	}
	n.defers = f.defers[:len(f.defers):len(f.defers)]
	return &n
}

type Thread struct {
	id      int
	frames  []*Frame
	done    bool
	blocked string // thread mode: reason
	locks   map[int]int // thread mode: lock object -> mode (1 read, 2 write)
	result  Val
	name    string
	preempt int
	// thread mode
	vc        []int
	atSwitch  bool
	waitMode  int // 1 RLock, 2 Lock, 3 WaitGroup.Wait, 4 channel
	waitLock  lockID
	waitChans []waitCh
	syncN     int
	waitTimer bool // blocked in a select that also has a pending timer arm
	timerDue  bool // the scheduler decided that the pending timer fires
}

func (t *Thread) clone() *Thread {
	n := *t
	n.frames = make([]*Frame, len(t.frames))
	for i, f := range t.frames {
		n.frames[i] = f.clone()
	}
	if t.locks != nil {
		n.locks = map[int]int{}
		for k, v := range t.locks {
			n.locks[k] = v
		}
	}
	return &n
}

func (t *Thread) top() *Frame { return t.frames[len(t.frames)-1] }

// ---------------------------------------------------------------- engine

type Finding struct {
	Kind    string // obligation kind
	Func    string
	Expr    string // normalised source text / detail
	Pos     string
	Key     string
	Harness string
	Model   *Model
	Inputs  []Input
	Result  string // sat / unknown
	Note    string
	Src     string // trimmed source line of the failing expression
	Job     Job
}

type Config struct {
	MaxLoop     int
	MaxSteps    int
	MaxPaths    int
	PermuteMaps bool
	Timeout     int // solver ms
	HardTimeout int // one-shot portfolio seconds
	MaxWall     int // seconds per job (0: 600)
	Stubs       map[string]bool
	TrackAlloc  bool
	Ticks       int // thread mode: number of timer / ticker firings per path (default 1)
	Preempt     int // thread mode: preemption bound (default 2)
}

type Engine struct {
	tb      *TB
	sol     *Solver
	stats   *SolverStats
	prog    *ssa.Program
	ld      *Loaded
	globals map[*ssa.Global]int
	root    map[int]*Object
	nextObj int
	cfg     Config

	work     []*State
	findings []Finding
	seenF    map[string]bool
	oblig    int
	disch    int
	inconc   []string
	paths    int
	deadPaths int
	decisions int
	harness  string
	entryPkg *ssa.Package
	splitN, splitK int
	threadMode bool
	funcs    map[string]bool
	stubsHit map[string]int
	reach    map[string]int
	samples  []map[string]interface{}
	handles  map[string]int // unique.Make canonical cells
	initRan  map[string]bool
	initDone bool
	inInit   bool
	endHook  func(st *State)
	allocSites map[string]int
	lastModel *Model
}

func NewEngine(ld *Loaded, cfg Config) *Engine {
	e := &Engine{tb: NewTB(), prog: ld.prog, ld: ld, cfg: cfg, globals: map[*ssa.Global]int{}, root: map[int]*Object{},
		seenF: map[string]bool{}, funcs: map[string]bool{}, stubsHit: map[string]int{}, reach: map[string]int{}, handles: map[string]int{}, initRan: map[string]bool{}, allocSites: map[string]int{}}
	e.stats = &SolverStats{}
	if e.cfg.Timeout == 0 {
		e.cfg.Timeout = 20000
	}
	kind := os.Getenv("GSE_SOLVER")
	if kind == "" {
		kind = "z3"
	}
	e.sol = NewSolver(kind, e.cfg.Timeout, e.stats)
	if e.cfg.MaxLoop == 0 {
		e.cfg.MaxLoop = 64
	}
	if e.cfg.HardTimeout == 0 {
		e.cfg.HardTimeout = 120
	}
	if e.cfg.MaxSteps == 0 {
		e.cfg.MaxSteps = 3000000
	}
	return e
}

func (e *Engine) Close() { e.sol.Close() }

func (e *Engine) newState() *State {
	return &State{root: e.root, heap: map[int]*Object{}, pcSet: map[*Term]bool{}}
}

// obj lookup: local heap first, then the frozen root heap (globals after init).
func (e *Engine) lookupRoot(id int) *Object { return e.root[id] }

// ---------------------------------------------------------------- solver glue

func (e *Engine) sat(st *State, c *Term) string {
	if c.IsTrue() && len(st.pc) == 0 {
		return "sat"
	}
	if c.IsFalse() {
		return "unsat"
	}
	t0 := time.Now()
	r, _ := e.sol.Check(st.pc, c, nil)
	if d := time.Since(t0); d > 2*time.Second && os.Getenv("GSE_SLOWQ") != "" {
		fn, fr := e.curFn(st)
		at := ""
		if fr != nil && fr.block != nil && fr.ip < len(fr.block.Instrs) {
			at = exprText(e.prog, fr.block.Instrs[fr.ip].Pos()) + " " + fr.block.Instrs[fr.ip].String()
		}
		fmt.Fprintf(os.Stderr, "SLOWQ %.1fs %s in %s at %s (term size %d, pc %d)\n", d.Seconds(), r, fn, at, termSize(c, map[*Term]bool{}), len(st.pc))
		if os.Getenv("GSE_SLOWQ") == "2" {
			for i, t := range st.pc {
				if n := termSize(t, map[*Term]bool{}); n > 200 {
					fmt.Fprintf(os.Stderr, "   pc[%d] size %d op %s\n", i, n, t.Op)
				}
			}
			pr := NewPrinter()
			txt := pr.P(c)
			os.WriteFile("/tmp/slowq.smt2", []byte(pr.Flush()+"\n(assert "+txt+")\n"), 0o644)
		}
	}
	return r
}

// decide returns the truth value of c on this path, forking (by
// re-execution of the current instruction in the clone) when both are feasible.
func (e *Engine) decide(st *State, c *Term) bool {
	if c.IsTrue() {
		return true
	}
	if c.IsFalse() {
		return false
	}
	if st.pcSet[c] {
		return true
	}
	nc := e.tb.Not(c)
	if st.pcSet[nc] {
		return false
	}
	e.decisions++
	ft := e.sat(st, c) != "unsat"
	ff := e.sat(st, nc) != "unsat"
	switch {
	case ft && ff:
		if forkStats != nil {
			fn, fr := e.curFn(st)
			if fr != nil && fr.ip < len(fr.block.Instrs) {
				forkStats[fn+" @"+exprText(e.prog, fr.block.Instrs[fr.ip].Pos())+" "+fr.block.Instrs[fr.ip].String()]++
			}
		}
		cl := st.clone()
		cl.addPC(nc)
		e.work = append(e.work, cl)
		st.addPC(c)
		return true
	case ft:
		st.addPC(c)
		return true
	case ff:
		st.addPC(nc)
		return false
	}
	panic(pathDead{"infeasible"})
}

// concretize picks a feasible value for t on this path; other values are
// explored by clones that re-execute the current instruction.
func (e *Engine) concretize(st *State, t *Term) uint64 {
	if t.IsConst() {
		return t.C
	}
	if v, ok := st.conc[t]; ok {
		return v
	}
	for i := 0; ; i++ {
		if i > 4096 {
			panic(engineErr("concretize: too many values"))
		}
		r, vals := e.sol.Check(st.pc, nil, []*Term{t})
		if r == "unsat" {
			panic(pathDead{"infeasible"})
		}
		if r != "sat" {
			panic(engineErr("concretize: solver %s", r))
		}
		c := e.tb.Cmp("=", t, e.tb.BV(vals[0], t.W))
		if e.decide(st, c) {
			nc := make(map[*Term]uint64, len(st.conc)+1)
			for k, v := range st.conc {
				nc[k] = v
			}
			nc[t] = vals[0]
			st.conc = nc
			return vals[0]
		}
	}
}

// unique returns the constant value of t if it has exactly one value under the path condition.
func (e *Engine) unique(st *State, t *Term) *Term {
	if t.IsConst() {
		return t
	}
	r, vals := e.sol.Check(st.pc, nil, []*Term{t})
	if r != "sat" {
		return t
	}
	c := e.tb.BV(vals[0], t.W)
	if e.sat(st, e.tb.Not(e.tb.Cmp("=", t, c))) == "unsat" {
		st.addPC(e.tb.Cmp("=", t, c))
		return c
	}
	return t
}

func exprText(prog *ssa.Program, pos token.Pos) string {
	if !pos.IsValid() {
		return ""
	}
	p := prog.Fset.Position(pos)
	return fmt.Sprintf("%s:%d", shortFile(p.Filename), p.Line)
}

func shortFile(f string) string {
	f = strings.TrimPrefix(f, "/repo/")
	if i := strings.Index(f, "/pkg/mod/"); i >= 0 {
		f = f[i+9:]
	}
	if i := strings.Index(f, "/go/src/"); i >= 0 {
		f = f[i+8:]
	}
	return f
}

// model extracts values for all inputs of the state from the solver (pc ∧ extra must be sat).
func (e *Engine) model(st *State, extra *Term) *Model {
	var want []*Term
	type slot struct {
		in  Input
		idx int
	}
	var slots []slot
	for _, in := range st.inputs {
		switch in.Kind {
		case "int":
			want = append(want, e.tb.Var(in.Name, in.W))
			slots = append(slots, slot{in, -1})
		case "bool":
			want = append(want, e.tb.BoolVar(in.Name))
			slots = append(slots, slot{in, -1})
		case "bytes":
			for i := 0; i < in.N; i++ {
				want = append(want, e.tb.Select(in.Name, e.tb.BV(uint64(i), 64)))
				slots = append(slots, slot{in, i})
			}
		}
	}
	r, vals := e.sol.Check(st.pc, extra, want)
	if r != "sat" {
		return nil
	}
	m := &Model{Vars: map[string]uint64{}, Arr: map[string]map[uint64]byte{}}
	for i, s := range slots {
		if s.idx < 0 {
			m.Vars[s.in.Name] = vals[i]
		} else {
			if m.Arr[s.in.Name] == nil {
				m.Arr[s.in.Name] = map[uint64]byte{}
			}
			m.Arr[s.in.Name][uint64(s.idx)] = byte(vals[i])
		}
	}
	return m
}

// report records a finding (deduplicated by key).
func (e *Engine) report(st *State, kind, fn, expr string, pos token.Pos, viol *Term, res string) {
	src := ""
	if kind != "assert" {
		src = e.srcLine(pos)
	}
	key := kind + "|" + fn + "|" + expr
	if kind == "data-race" || kind == "deadlock" {
		key = kind + "|" + expr
	} else if src != "" {
		key = kind + "|" + fn + "|" + src
		// one level of calling context (distinguishes callers of small helpers)
		if th := st.threads[st.cur]; len(th.frames) >= 2 {
			key += "|from " + th.frames[len(th.frames)-2].fn.Name()
		}
	}
	if e.seenF[key] {
		return
	}
	e.seenF[key] = true
	f := Finding{Kind: kind, Func: fn, Expr: expr, Pos: exprText(e.prog, pos), Key: key, Harness: e.harness, Result: res, Src: src}
	f.Inputs = append([]Input{}, st.inputs...)
	if res == "sat" {
		f.Model = e.model(st, viol)
	}
	e.findings = append(e.findings, f)
}

func (e *Engine) curFn(st *State) (string, *Frame) {
	th := st.threads[st.cur]
	if len(th.frames) == 0 {
		return "?", nil
	}
	fr := th.top()
	return fr.fn.String(), fr
}

// callerChain: nearest frames for context in findings.
func (e *Engine) where(st *State) string {
	th := st.threads[st.cur]
	var parts []string
	for i := len(th.frames) - 1; i >= 0 && len(parts) < 4; i-- {
		parts = append(parts, th.frames[i].fn.Name())
	}
	return strings.Join(parts, "<")
}

// oblige: safe must hold on every input of this path. A satisfiable
// violation is a finding; the path continues under safe.
func (e *Engine) oblige(st *State, safe *Term, kind string, pos token.Pos, expr string) {
	if e.inInit {
		if safe.IsFalse() {
			panic(engineErr("panic during package init: %s %s", kind, expr))
		}
		return
	}
	e.oblig++
	if safe.IsTrue() || st.pcSet[safe] {
		e.disch++
		return
	}
	fn, _ := e.curFn(st)
	viol := e.tb.Not(safe)
	r := e.sat(st, viol)
	switch r {
	case "unsat":
		e.disch++
		st.addPC(safe)
		return
	case "sat":
		e.report(st, kind, fn, expr, pos, viol, "sat")
	default:
		e.inconc = append(e.inconc, fmt.Sprintf("%s: solver unknown for %s in %s (%s)", e.harness, kind, fn, expr))
	}
	if safe.IsFalse() || e.sat(st, safe) == "unsat" {
		panic(pathDead{kind})
	}
	st.addPC(safe)
}

// monitor: like oblige, but the violating executions continue natively (no panic), so the
// path is not constrained by the monitored condition.
func (e *Engine) monitor(st *State, safe *Term, kind string, pos token.Pos, expr string) {
	if e.inInit {
		return
	}
	e.oblig++
	if safe.IsTrue() || st.pcSet[safe] {
		e.disch++
		return
	}
	fn, _ := e.curFn(st)
	viol := e.tb.Not(safe)
	switch e.sat(st, viol) {
	case "unsat":
		e.disch++
	case "sat":
		e.report(st, kind, fn, expr, pos, viol, "sat")
	default:
		e.inconc = append(e.inconc, fmt.Sprintf("%s: solver unknown for %s in %s (%s)", e.harness, kind, fn, expr))
	}
}

// ---------------------------------------------------------------- running

type RunResult struct {
	Paths     int
	Dead      int
	Oblig     int
	Disch     int
	Decisions int
	Findings  []Finding
	Inconc    []string
	Wall      time.Duration
	Steps     int
}

// Run explores all paths of fn(args...) from the initial state.
// modelTab: library functions replaced by a model written in Go in the harness package of the running job
// (when that package defines it). The models are part of the claim (evidence: stubs).
var modelTab = map[string]string{
	"gopkg.in/yaml.v2.Marshal":   "verifModelYAMLMarshal",
	"gopkg.in/yaml.v2.Unmarshal": "verifModelYAMLUnmarshal",
	"io/ioutil.ReadFile":         "verifModelReadFile",
	"io/ioutil.WriteFile":        "verifModelWriteFile",
}

func (e *Engine) modelFor(fn *ssa.Function) *ssa.Function {
	if e.entryPkg == nil || fn.Pkg == nil {
		return nil
	}
	m, ok := modelTab[fn.String()]
	if !ok {
		return nil
	}
	return e.entryPkg.Func(m)
}

func (e *Engine) Run(name string, fn *ssa.Function, args []Val, init *State) {
	e.harness = name
	e.entryPkg = fn.Pkg
	st := init
	if st == nil {
		st = e.newState()
	}
	th := &Thread{id: 0, name: "main"}
	st.threads = []*Thread{th}
	e.pushFrame(st, th, fn, args, nil, nil)
	e.work = append(e.work, st)
	deadline := time.Now().Add(time.Duration(e.cfg.MaxWall) * time.Second)
	if e.cfg.MaxWall == 0 {
		deadline = time.Now().Add(600 * time.Second)
	}
	for len(e.work) > 0 {
		if time.Now().After(deadline) {
			e.inconc = append(e.inconc, fmt.Sprintf("%s: wall-clock budget exhausted with %d states pending after %d paths", name, len(e.work), e.paths+e.deadPaths))
			e.work = nil
			break
		}
		st := e.work[len(e.work)-1]
		e.work = e.work[:len(e.work)-1]
		e.runPath(st)
		if e.cfg.MaxPaths > 0 && e.paths+e.deadPaths > e.cfg.MaxPaths {
			e.inconc = append(e.inconc, fmt.Sprintf("%s: path budget %d exhausted with %d states pending", name, e.cfg.MaxPaths, len(e.work)))
			e.work = nil
		}
	}
}

func (e *Engine) runPath(st *State) {
	defer func() {
		if r := recover(); r != nil {
			switch x := r.(type) {
			case pathDead:
				e.deadPaths++
			case engineError:
				fn, _ := e.curFn(st)
				msg := fmt.Sprintf("%s: engine error in %s: %s", e.harness, fn, x.msg)
				if os.Getenv("GSE_DEBUG") != "" {
					fmt.Fprintln(os.Stderr, msg, e.where(st))
				}
				e.inconc = append(e.inconc, msg)
				e.deadPaths++
			default:
				fn, fr := e.curFn(st)
				at := ""
				if fr != nil && fr.block != nil && fr.ip < len(fr.block.Instrs) {
					at = fr.block.Instrs[fr.ip].String()
				}
				if os.Getenv("GSE_DEBUG") == "2" {
					fmt.Fprintf(os.Stderr, "engine crash in %s at %s: %v\n", fn, at, r)
					panic(r)
				}
				msg := fmt.Sprintf("%s: engine error in %s at %s: %v", e.harness, fn, at, r)
				if os.Getenv("GSE_DEBUG") != "" {
					fmt.Fprintln(os.Stderr, msg, e.where(st))
				}
				e.inconc = append(e.inconc, msg)
				e.deadPaths++
			}
		}
	}()
	for {
		if e.threadMode {
			if !e.schedule(st) {
				break
			}
		}
		th := st.threads[st.cur]
		if th.done || len(th.frames) == 0 {
			if e.threadMode {
				continue
			}
			// sequential mode: run pending goroutines one after another
			if len(st.pending) > 0 {
				p := st.pending[0]
				st.pending = st.pending[1:]
				th.done = false
				e.callFunc(st, th, p.fn, p.args, nil)
				continue
			}
			break
		}
		if st.steps > e.cfg.MaxSteps {
			e.inconc = append(e.inconc, fmt.Sprintf("%s: step budget exhausted", e.harness))
			e.deadPaths++
			return
		}
		st.choiceSeq = 0
		if e.threadMode {
			e.stepYield(st, th)
		} else {
			e.step(st, th)
		}
		st.steps++ // after the instruction: a clone taken inside it re-executes with the same step number
	}
	e.paths++
	if e.endHook != nil {
		e.endHook(st)
	}
	for k := range st.reached {
		e.reach[k]++
	}
	if len(e.samples) < 4 && len(st.inputs) > 0 && e.paths%7 == 1 {
		if m := e.model(st, nil); m != nil {
			e.samples = append(e.samples, sampleOf(st, m))
		}
	}
}

func sampleOf(st *State, m *Model) map[string]interface{} {
	s := map[string]interface{}{}
	for _, in := range st.inputs {
		switch in.Kind {
		case "int", "bool":
			s[in.Name] = m.Vars[in.Name]
		case "bytes":
			n := in.N
			if n > 64 {
				n = 64
			}
			b := make([]byte, n)
			for i := 0; i < n; i++ {
				b[i] = m.Arr[in.Name][uint64(i)]
			}
			s[in.Name] = fmt.Sprintf("%x", b)
		}
	}
	s["path_conditions"] = len(st.pc)
	return s
}

func (e *Engine) pushFrame(st *State, th *Thread, fn *ssa.Function, args []Val, bind []Val, retTo ssa.Value) *Frame {
	if fn.Blocks == nil {
		panic(engineErr("no body: %s", fn.String()))
	}
	if len(th.frames) > 1200 {
		panic(engineErr("call depth > 1200 in %s", fn.String()))
	}
	if !e.inInit {
		e.funcs[fn.String()] = true
	}
	fr := &Frame{fn: fn, regs: make(map[ssa.Value]Val, 16), block: fn.Blocks[0], retTo: retTo}
	if len(args) != len(fn.Params) {
		panic(engineErr("call %s: %d args for %d params", fn.String(), len(args), len(fn.Params)))
	}
	for i, p := range fn.Params {
		fr.regs[p] = args[i]
	}
	for i, fv := range fn.FreeVars {
		fr.regs[fv] = bind[i]
	}
	th.frames = append(th.frames, fr)
	return fr
}

func (e *Engine) get(st *State, fr *Frame, v ssa.Value) Val {
	switch x := v.(type) {
	case *ssa.Const:
		return e.constVal(st, x)
	case *ssa.Function:
		return FuncV{Fn: x}
	case *ssa.Global:
		id := e.globalObj(st, x)
		if st.obj(id).kind == okBytes {
			return PtrV{Obj: id, Idx: e.tb.BV(0, 64)}
		}
		return PtrV{Obj: id}
	case *ssa.Builtin:
		panic(engineErr("builtin as value"))
	}
	r, ok := fr.regs[v]
	if !ok {
		panic(engineErr("unset register %s in %s", v.Name(), fr.fn))
	}
	return r
}

func (e *Engine) globalObj(st *State, g *ssa.Global) int {
	if id, ok := e.globals[g]; ok {
		return id
	}
	if e.initDone && !e.inInit {
		// global of a package whose initialiser was not run
		if g.Pkg != nil && !e.initRan[g.Pkg.Pkg.Path()] {
			t := g.Type().(*types.Pointer).Elem()
			// zero-valued globals of un-initialised packages are allowed only for plain
			// data that the initialiser would not touch (sync primitives, counters)
			switch t.Underlying().(type) {
			case *types.Interface, *types.Map, *types.Slice, *types.Pointer:
				panic(engineErr("read of global %s.%s whose package init was not run", g.Pkg.Pkg.Path(), g.Name()))
			}
		}
	}
	t := g.Type().(*types.Pointer).Elem()
	var o *Object
	e.nextObj++
	gid := e.nextObj
	if n, ok := isByteArray(t); ok {
		o = &Object{id: gid, kind: okBytes, arr: aZeroArr, n: e.tb.BV(uint64(n), 64), site: "global " + g.Name()}
	} else {
		zv := e.zero(st, t)
		o = &Object{id: gid, kind: okVal, v: zv, site: "global " + g.Name()}
	}
	o.typ = t
	e.globals[g] = o.id
	e.root[o.id] = o
	return o.id
}

func (e *Engine) constVal(st *State, c *ssa.Const) Val {
	t := c.Type()
	if c.Value == nil {
		return e.zero(st, t)
	}
	if w, _, ok := intWidth(t); ok {
		return IntV{e.tb.BV(constUint(c), w)}
	}
	if b, ok := t.Underlying().(*types.Basic); ok {
		switch {
		case b.Info()&types.IsBoolean != 0:
			return BoolV{e.tb.Bool(constBool(c))}
		case b.Info()&types.IsString != 0:
			return StrV{Conc: true, S: constString(c)}
		case b.Info()&types.IsFloat != 0:
			return FloatV{c.Float64()}
		}
	}
	panic(engineErr("const %s of type %s", c.String(), t))
}

// ---------------------------------------------------------------- stepping

func isLoopHead(b *ssa.BasicBlock) bool {
	for _, p := range b.Preds {
		if b.Dominates(p) { // back edge
			return true
		}
	}
	return false
}

func (e *Engine) enterBlock(st *State, fr *Frame) {
	b := fr.block
	fr.entered = true
	// phis (evaluated simultaneously)
	var phivals []Val
	nphi := 0
	for _, in := range b.Instrs {
		phi, ok := in.(*ssa.Phi)
		if !ok {
			break
		}
		nphi++
		found := false
		for i, p := range b.Preds {
			if p == fr.prev {
				phivals = append(phivals, e.get(st, fr, phi.Edges[i]))
				found = true
				break
			}
		}
		if !found {
			panic(engineErr("phi without matching predecessor in %s", fr.fn))
		}
	}
	for i, v := range phivals {
		fr.regs[b.Instrs[i].(*ssa.Phi)] = v
	}
	fr.ip = nphi
	if !isLoopHead(b) || e.inInit {
		return
	}
	if fr.counts == nil {
		fr.counts = map[*ssa.BasicBlock]int{}
		fr.snaps = map[*ssa.BasicBlock]*snapshot{}
	}
	fr.counts[b]++
	// solver-decided lasso: can the state at this loop head equal the state at the previous visit?
	// state = every phi register of the function that currently holds a value (covers enclosing loops) + heap
	var allPhis []Val
	for _, blk := range fr.fn.Blocks {
		for _, in := range blk.Instrs {
			phi, ok := in.(*ssa.Phi)
			if !ok {
				break
			}
			if v, ok := fr.regs[phi]; ok {
				allPhis = append(allPhis, v)
			} else {
				allPhis = append(allPhis, nil)
			}
		}
	}
	syncN := 0
	if e.threadMode {
		syncN = st.threads[st.cur].syncN
	}
	// thread mode: an iteration that went through a blocking-capable synchronisation operation is not a spin
	if prev := fr.snaps[b]; prev != nil && (prev.heap != nil || len(prev.phis) > 0) && prev.sync == syncN {
		eq := e.tb.tt
		if prev.heap == nil && !differConcretely(prev.phis, allPhis) {
			eq = e.tb.ff // no heap snapshot was taken (all-concrete phis): cannot conclude anything
		}
		for i, pv := range prev.phis {
			if eq.IsFalse() {
				break
			}
			if pv == nil && allPhis[i] == nil {
				continue
			}
			if pv == nil || allPhis[i] == nil {
				eq = e.tb.ff
				break
			}
			eq = e.tb.And(eq, e.eqLoose(pv, allPhis[i]))
			if eq.IsFalse() {
				break
			}
		}
		if !eq.IsFalse() {
			// objects that may differ: those in either delta, plus everything if the base was compacted meanwhile
			cmp := func(id int) {
				if eq.IsFalse() {
					return
				}
				po, co := prev.get(id), st.local(id)
				if po == nil {
					po = st.root[id] // object of the frozen root heap modified since the snapshot
				}
				if po == nil || co == nil || po == co {
					return // allocated after the snapshot, or unchanged
				}
				eq = e.tb.And(eq, e.objEq(po, co))
			}
			for id := range st.heap {
				cmp(id)
			}
			for id := range prev.heap {
				if _, done := st.heap[id]; !done {
					cmp(id)
				}
			}
			if !sameMap(prev.base, st.base) {
				for id := range st.base {
					if _, done := st.heap[id]; !done {
						if _, done2 := prev.heap[id]; !done2 {
							cmp(id)
						}
					}
				}
			}
		}
		if !eq.IsFalse() {
			r := e.sat(st, eq)
			if r == "sat" {
				e.oblig++
				pos := b.Instrs[len(b.Instrs)-1].Pos()
				if !pos.IsValid() && len(b.Instrs) > nphi {
					pos = b.Instrs[nphi].Pos()
				}
				e.report(st, "non-termination", fr.fn.String(), "loop state repeats ("+b.Comment+")", pos, eq, "sat")
				neq := e.tb.Not(eq)
				if e.sat(st, neq) == "unsat" {
					panic(pathDead{"lasso"})
				}
				st.addPC(neq)
			}
		}
	}
	// The heap snapshot is only needed when the phi values could compare equal at the next visit; counting
	// loops over concrete indices (the common case, e.g. zeroing a buffer) skip it.
	var hp map[int]*Object
	if !allConcreteInts(allPhis) {
		hp = make(map[int]*Object, len(st.heap))
		for k, v := range st.heap {
			hp[k] = v
		}
	}
	fr.snaps[b] = &snapshot{phis: allPhis, base: st.base, heap: hp, sync: syncN}
	if fr.counts[b] > e.cfg.MaxLoop {
		e.inconc = append(e.inconc, fmt.Sprintf("%s: unwinding bound %d reached in %s (%s)", e.harness, e.cfg.MaxLoop, fr.fn, exprText(e.prog, fr.fn.Pos())))
		panic(pathDead{"unwind"})
	}
}

// eqLoose is eq that treats incomparable shapes as different and opaque values as equal.
func (e *Engine) eqLoose(a, b Val) (r *Term) {
	defer func() {
		if x := recover(); x != nil {
			if _, ok := x.(engineError); ok {
				r = e.tb.ff
				return
			}
			panic(x)
		}
	}()
	return e.eq(a, b)
}

func (e *Engine) objEq(a, b *Object) *Term {
	if a.kind != b.kind {
		return e.tb.ff
	}
	switch a.kind {
	case okVal:
		return e.eqLoose(a.v, b.v)
	case okBytes:
		return e.tb.Bool(a.arr == b.arr)
	case okMap:
		if len(a.ents) != len(b.ents) {
			return e.tb.ff
		}
		r := e.tb.tt
		for i := range a.ents {
			r = e.tb.And(r, e.tb.And(e.eqLoose(a.ents[i].K, b.ents[i].K), e.eqLoose(a.ents[i].V, b.ents[i].V)))
		}
		return r
	case okChan:
		return e.tb.Bool(len(a.q) == len(b.q) && a.closed == b.closed)
	}
	return e.tb.ff
}

func (e *Engine) jump(fr *Frame, to *ssa.BasicBlock) {
	fr.prev = fr.block
	fr.block = to
	fr.ip = 0
	fr.entered = false
}

func (e *Engine) step(st *State, th *Thread) {
	fr := th.top()
	if !fr.entered {
		e.enterBlock(st, fr)
	}
	in := fr.block.Instrs[fr.ip]
	switch x := in.(type) {
	case *ssa.If:
		c := e.get(st, fr, x.Cond).(BoolV).T
		if e.decide(st, c) {
			e.jump(fr, fr.block.Succs[0])
		} else {
			e.jump(fr, fr.block.Succs[1])
		}
	case *ssa.Jump:
		e.jump(fr, fr.block.Succs[0])
	case *ssa.Return:
		var rv Val
		if len(x.Results) == 1 {
			rv = e.get(st, fr, x.Results[0])
		} else if len(x.Results) > 1 {
			t := make(TupleV, len(x.Results))
			for i, r := range x.Results {
				t[i] = e.get(st, fr, r)
			}
			rv = t
		}
		e.popFrame(st, th, rv)
	case *ssa.Panic:
		v := e.get(st, fr, x.X)
		msg := "panic"
		if iv, ok := v.(IfaceV); ok {
			if s, ok := iv.V.(StrV); ok && s.Conc {
				msg = "panic: " + s.S
			}
		}
		e.oblige(st, e.tb.ff, "explicit-panic", x.Pos(), msg)
	case *ssa.Call:
		e.doCall(st, th, fr, x.Common(), x, x.Pos())
	case *ssa.Defer:
		e.doDefer(st, fr, x)
		fr.ip++
	case *ssa.RunDefers:
		if len(fr.defers) == 0 {
			fr.ip++
			break
		}
		d := fr.defers[len(fr.defers)-1]
		fr.defers = fr.defers[:len(fr.defers)-1]
		if e.threadMode {
			func() {
				defer func() {
					if r := recover(); r != nil {
						if _, ok := r.(threadYield); ok {
							fr.defers = append(fr.defers, d) // deferred acquire yielded: run it again
						}
						panic(r)
					}
				}()
				e.callDeferred(st, th, d)
			}()
			break
		}
		e.callDeferred(st, th, d)
	case *ssa.Go:
		e.doGo(st, th, fr, x)
		fr.ip++
	default:
		e.exec(st, th, fr, in)
		fr.ip++
	}
}

// stepYield: one instruction in thread mode; a threadYield leaves the instruction unexecuted (it yields before
// mutating anything) and returns to the scheduler.
func (e *Engine) stepYield(st *State, th *Thread) {
	defer func() {
		if r := recover(); r != nil {
			if _, ok := r.(threadYield); ok {
				return
			}
			panic(r)
		}
	}()
	e.step(st, th)
	th.atSwitch = false // the instruction completed: its switch offer is consumed
}

func (e *Engine) popFrame(st *State, th *Thread, rv Val) {
	fr := th.top()
	if len(fr.defers) > 0 {
		// function returned without RunDefers (cannot happen in well-formed SSA)
		panic(engineErr("return with pending defers in %s", fr.fn))
	}
	th.frames = th.frames[:len(th.frames)-1]
	if len(th.frames) == 0 {
		th.done = true
		th.result = rv
		return
	}
	caller := th.top()
	if fr.noAdvance {
		return
	}
	if fr.dirtyResult {
		e.scribble(st, rv)
	}
	if fr.retTo != nil {
		caller.regs[fr.retTo] = rv
	}
	caller.ip++
}

// callFunc pushes a frame (or runs an intrinsic) for fv(args). retTo nil: result discarded; the
// caller's ip is advanced when the callee returns unless noAdv is requested via callDeferred.
func (e *Engine) callFunc(st *State, th *Thread, fv FuncV, args []Val, retTo ssa.Value) {
	if fv.Fn == nil {
		panic(engineErr("call of nil func"))
	}
	switch fv.Fn.Name() {
	case "verifRunGoroutines":
		// sequential mode: run the goroutines queued so far, one after another, now
		for len(st.pending) > 0 {
			p := st.pending[0]
			st.pending = st.pending[1:]
			if _, ok := e.intrinsic(st, th, p.fn.Fn, p.args); ok {
				continue
			}
			fr := e.pushFrame(st, th, p.fn.Fn, p.args, p.fn.Bind, nil)
			fr.noAdvance = true // on return this call is re-executed and picks the next one
			return
		}
		th.top().ip++
		return
	case "Get":
		if fv.Fn.String() == "(*sync.Pool).Get" {
			p := args[0].(PtrV)
			pool := e.loadPtr(st, p, fv.Fn.Signature.Recv().Type().(*types.Pointer).Elem()).(StructV)
			newf, _ := pool.F[len(pool.F)-1].(FuncV)
			if newf.Fn == nil {
				if retTo != nil {
					th.top().regs[retTo] = IfaceV{}
				}
				th.top().ip++
				return
			}
			e.stubsHit["(*sync.Pool).Get"]++
			fr := e.pushFrame(st, th, newf.Fn, nil, newf.Bind, retTo)
			fr.dirtyResult = true
			return
		}
	}
	if m := e.modelFor(fv.Fn); m != nil {
		e.stubsHit["model:"+fv.Fn.String()+" -> "+m.Name()]++
		e.pushFrame(st, th, m, args, nil, retTo)
		return
	}
	if v, ok := e.intrinsic(st, th, fv.Fn, args); ok {
		if len(th.frames) > 0 {
			fr := th.top()
			if retTo != nil {
				fr.regs[retTo] = v
			}
			fr.ip++
		}
		return
	}
	e.pushFrame(st, th, fv.Fn, args, fv.Bind, retTo)
}

func (e *Engine) resolveCallee(st *State, fr *Frame, cc *ssa.CallCommon, pos token.Pos) (FuncV, []Val) {
	var args []Val
	if cc.IsInvoke() {
		recv := e.get(st, fr, cc.Value).(IfaceV)
		e.oblige(st, e.tb.Bool(recv.T != nil), "nil-interface-call", pos, cc.Method.Name())
		m := e.prog.LookupMethod(recv.T, cc.Method.Pkg(), cc.Method.Name())
		if m == nil {
			panic(engineErr("method %s not found on %s", cc.Method.Name(), recv.T))
		}
		args = append(args, recv.V)
		for _, a := range cc.Args {
			args = append(args, e.get(st, fr, a))
		}
		return FuncV{Fn: m}, args
	}
	for _, a := range cc.Args {
		args = append(args, e.get(st, fr, a))
	}
	fv, ok := e.get(st, fr, cc.Value).(FuncV)
	if !ok {
		panic(engineErr("call of non-function %T", e.get(st, fr, cc.Value)))
	}
	e.oblige(st, e.tb.Bool(fv.Fn != nil), "nil-func-call", pos, "")
	return fv, args
}

func (e *Engine) doCall(st *State, th *Thread, fr *Frame, cc *ssa.CallCommon, res ssa.Value, pos token.Pos) {
	if bi, ok := cc.Value.(*ssa.Builtin); ok {
		var args []Val
		for _, a := range cc.Args {
			args = append(args, e.get(st, fr, a))
		}
		v := e.builtin(st, fr, bi, args, cc, pos)
		if res != nil {
			fr.regs[res] = v
		}
		fr.ip++
		return
	}
	fv, args := e.resolveCallee(st, fr, cc, pos)
	e.callFunc(st, th, fv, args, res)
}

func (e *Engine) doDefer(st *State, fr *Frame, x *ssa.Defer) {
	cc := x.Common()
	if bi, ok := cc.Value.(*ssa.Builtin); ok {
		panic(engineErr("deferred builtin %s", bi.Name()))
	}
	fv, args := e.resolveCallee(st, fr, cc, x.Pos())
	fr.defers = append(fr.defers, deferred{fn: fv, args: args})
}

func (e *Engine) callDeferred(st *State, th *Thread, d deferred) {
	if _, ok := e.intrinsic(st, th, d.fn.Fn, d.args); ok {
		return // ip stays at RunDefers: next deferred call
	}
	fr := e.pushFrame(st, th, d.fn.Fn, d.args, d.fn.Bind, nil)
	fr.noAdvance = true
}

func (e *Engine) doGo(st *State, th *Thread, fr *Frame, x *ssa.Go) {
	cc := x.Common()
	fv, args := e.resolveCallee(st, fr, cc, x.Pos())
	if e.cfg.TrackAlloc {
		e.noteAlloc(st, fr, "go "+fv.Fn.Name(), x.Pos())
	}
	if e.threadMode {
		if e.skipGo(fv.Fn.String()) {
			st.notes = append(st.notes, "goroutine not run: "+fv.Fn.String())
			return
		}
		e.spawn(st, fv, args)
		return
	}
	name := fv.Fn.String()
	if e.skipGo(name) {
		st.notes = append(st.notes, "goroutine not run: "+name)
		return
	}
	st.pending = append(st.pending, pendingGo{fv, args})
}

// skipGo: goroutines that wait on tickers / sockets are recorded, not run.
func (e *Engine) skipGo(name string) bool {
	for _, s := range []string{"purgeLoop", "minuteLoop", "spoofLoop", "readLoop", "radvs", "Serve", "func1"} {
		_ = s
	}
	return e.cfg.Stubs["go:"+name]
}

func (e *Engine) noteAlloc(st *State, fr *Frame, what string, pos token.Pos) {
	if e.inInit {
		return
	}
	st.events = append(st.events, Event{Kind: "alloc", Vals: []Val{StrV{Conc: true, S: what + " in " + fr.fn.String() + " @" + exprText(e.prog, pos)}}})
}

// sortedKeys helper for deterministic output
func sortedKeys(m map[string]int) []string {
	ks := make([]string, 0, len(m))
	for k := range m {
		ks = append(ks, k)
	}
	sort.Strings(ks)
	return ks
}

// scribble: a buffer obtained from a sync.Pool may hold arbitrary old contents.
func (e *Engine) scribble(st *State, v Val) {
	if iv, ok := v.(IfaceV); ok {
		v = iv.V
	}
	p, ok := v.(PtrV)
	if !ok || p.Obj == 0 {
		return
	}
	o := st.obj(p.Obj)
	dirty := func(id int) {
		b := st.mut(id)
		name := fmt.Sprintf("pool_%d", len(st.inputs))
		n := 0
		if b.n.IsConst() {
			n = int(b.n.C)
		}
		st.inputs = append(st.inputs, Input{Kind: "bytes", Name: name, N: n, Seq: -1})
		b.arr = &Arr{kind: aBase, name: name}
	}
	switch o.kind {
	case okBytes:
		dirty(o.id)
	case okVal:
		if sv, ok := o.v.(StructV); ok {
			for _, f := range sv.F {
				if ev, ok := f.(EmbV); ok {
					dirty(ev.Obj)
				}
			}
		}
	}
}

var srcCache = map[string][]string{}
var srcMu sync.Mutex

// srcLine returns the whitespace-normalised source line at pos (stable under line renumbering).
func (e *Engine) srcLine(pos token.Pos) string {
	if !pos.IsValid() {
		return ""
	}
	p := e.prog.Fset.Position(pos)
	srcMu.Lock()
	defer srcMu.Unlock()
	lines, ok := srcCache[p.Filename]
	if !ok {
		var b []byte
		if ov, ok2 := e.ld.overlay[p.Filename]; ok2 {
			b = ov
		} else {
			b, _ = os.ReadFile(p.Filename)
		}
		lines = strings.Split(string(b), "\n")
		srcCache[p.Filename] = lines
	}
	if p.Line < 1 || p.Line > len(lines) {
		return ""
	}
	return strings.Join(strings.Fields(lines[p.Line-1]), " ")
}

var forkStats map[string]int

func init() {
	if os.Getenv("GSE_FORKS") != "" {
		forkStats = map[string]int{}
	}
}

func dumpForkStats() {
	if forkStats == nil {
		return
	}
	type kv struct {
		k string
		v int
	}
	var l []kv
	for k, v := range forkStats {
		l = append(l, kv{k, v})
	}
	sort.Slice(l, func(i, j int) bool { return l[i].v > l[j].v })
	for i, x := range l {
		if i > 25 {
			break
		}
		fmt.Fprintf(os.Stderr, "FORKS %6d %s\n", x.v, x.k)
	}
}

// allConcreteInts: every value is nil or a constant integer / boolean (and there is at least one integer).
func allConcreteInts(vals []Val) bool {
	n := 0
	for _, v := range vals {
		switch x := v.(type) {
		case nil:
		case IntV:
			if !x.T.IsConst() {
				return false
			}
			n++
		case BoolV:
			if !x.T.IsConst() {
				return false
			}
		default:
			return false
		}
	}
	return n > 0
}

// differConcretely: some pair of corresponding constant integers differs.
func differConcretely(a, b []Val) bool {
	for i := range a {
		x, ok1 := a[i].(IntV)
		y, ok2 := b[i].(IntV)
		if ok1 && ok2 && x.T.IsConst() && y.T.IsConst() && x.T.C != y.T.C {
			return true
		}
	}
	return false
}

func sameMap(a, b map[int]*Object) bool {
	if len(a) != len(b) {
		return false
	}
	if len(a) == 0 {
		return true
	}
	// maps are reference types: identical iff a write to one shows in the other; compare by a probe key
	for k, v := range a {
		return b[k] == v && len(a) == len(b) && mapPtr(a) == mapPtr(b)
	}
	return true
}

func mapPtr(m map[int]*Object) uintptr { return reflect.ValueOf(m).Pointer() }
